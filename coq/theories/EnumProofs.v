(* EnumProofs.v — C16: paged enumerations.
   (1) cipher-suite records: a specification-side encoder, parse/encode round trip,
       rejection of malformed input, soundness of the parser;
   (3) DCMI sensor-info paging and the IPMI/DCMI entity fallback;
   (2) 16-byte chunk retrieval of the cipher-suite record data. *)
From BMC Require Import Base BaseFacts Prim Proc Dispatch.
From Coq Require Import ZifyN ZifyNat ZifyBool.
Ltac Zify.zify_post_hook ::= Z.div_mod_to_equations.
Local Open Scope N_scope.

(* ===================================================================== *)
(* (1) cipher-suite records                                               *)
(* ===================================================================== *)
Record csspec := { cs_id : N; cs_oem : option N; cs_auth : N; cs_integs : list N; cs_confs : list N }.

Definition encode_header (r : csspec) : bytes :=
  match cs_oem r with
  | Some iana => [0xC1; cs_id r] ++ put_le24 iana
  | None => [0xC0; cs_id r]
  end.
Definition encode_record (r : csspec) : bytes :=
  encode_header r ++ [cs_auth r] ++ map (fun i => 0x40 + i) (cs_integs r) ++ map (fun c => 0x80 + c) (cs_confs r).
Definition encode_records (rs : list csspec) : bytes := flat_map encode_record rs.

Definition or_zero (l : list N) : list N := match l with [] => [0] | _ => l end.
Definition expand (r : csspec) : list csrecord :=
  flat_map (fun i => map (fun c => {| cr_id := cs_id r; cr_auth := cs_auth r; cr_integ := i; cr_conf := c;
                                      cr_enterprise := match cs_oem r with Some iana => iana | None => 0 end |})
                         (or_zero (cs_confs r)))
           (or_zero (cs_integs r)).

Definition wf (r : csspec) : Prop :=
  cs_id r < 256 /\ cs_auth r < 64 /\ Forall (fun i => i < 64) (cs_integs r) /\ Forall (fun c => c < 64) (cs_confs r) /\
  match cs_oem r with Some iana => iana < 2 ^ 24 | None => True end.

(* ---- tag facts ---- *)
Lemma tag1_sweep : forallb (fun i => (N.shiftr (0x40 + i) 6 =? 1) && (N.land (0x40 + i) 0x3f =? i)) (N_seq 64) = true.
Proof. vm_cast_no_check (eq_refl true). Qed.
Lemma tag2_sweep : forallb (fun i => (N.shiftr (0x80 + i) 6 =? 2) && (N.land (0x80 + i) 0x3f =? i)) (N_seq 64) = true.
Proof. vm_cast_no_check (eq_refl true). Qed.
Lemma tag0_sweep : forallb (fun i => N.shiftr i 6 =? 0) (N_seq 64) = true.
Proof. vm_cast_no_check (eq_refl true). Qed.

Lemma tag1 i : i < 64 -> N.shiftr (0x40 + i) 6 = 1 /\ N.land (0x40 + i) 0x3f = i.
Proof. intros H. pose proof (sweep_n 64 _ tag1_sweep i H) as S. cbv beta in S. lia. Qed.
Lemma tag2 i : i < 64 -> N.shiftr (0x80 + i) 6 = 2 /\ N.land (0x80 + i) 0x3f = i.
Proof. intros H. pose proof (sweep_n 64 _ tag2_sweep i H) as S. cbv beta in S. lia. Qed.
Lemma tag0 a : a < 64 -> N.shiftr a 6 = 0.
Proof. intros H. pose proof (sweep_n 64 _ tag0_sweep a H) as S. cbv beta in S. lia. Qed.

(* the next byte (if any) does not carry [tag] *)
Definition stops (tag : N) (rest : bytes) : Prop :=
  match rest with [] => True | b :: _ => N.shiftr b 6 <> tag end.

Lemma take_tagged_stops tag rest : stops tag rest -> take_tagged tag rest = ([], rest).
Proof.
  destruct rest as [|b r]; cbn [stops take_tagged]; intros H; [reflexivity|].
  destruct (N.eqb_spec (N.shiftr b 6) tag); [contradiction|reflexivity].
Qed.

Lemma take_tagged_1 l rest : Forall (fun i => i < 64) l -> stops 1 rest ->
  take_tagged 1 (map (fun i => 0x40 + i) l ++ rest) = (l, rest).
Proof.
  intros Hl Hs. induction Hl as [|i l Hi Hl IH].
  - apply take_tagged_stops, Hs.
  - cbn [map app take_tagged]. destruct (tag1 i Hi) as [-> ->]. rewrite IH. reflexivity.
Qed.
Lemma take_tagged_2 l rest : Forall (fun i => i < 64) l -> stops 2 rest ->
  take_tagged 2 (map (fun i => 0x80 + i) l ++ rest) = (l, rest).
Proof.
  intros Hl Hs. induction Hl as [|i l Hi Hl IH].
  - apply take_tagged_stops, Hs.
  - cbn [map app take_tagged]. destruct (tag2 i Hi) as [-> ->]. rewrite IH. reflexivity.
Qed.

(* ---- one parsing step, on the two header shapes ---- *)
Definition mkrecs (id a ent : N) (integs confs : list N) : list csrecord :=
  flat_map (fun i => map (fun c => {| cr_id := id; cr_auth := a; cr_integ := i; cr_conf := c; cr_enterprise := ent |})
                         (or_zero confs)) (or_zero integs).

Lemma parse_step_std f id a tl acc : N.shiftr a 6 = 0 ->
  parse_records (S f) (0xC0 :: id :: a :: tl) acc =
  let '(integs, r1) := take_tagged 1 tl in
  let '(confs, r2) := take_tagged 2 r1 in
  parse_records f r2 (acc ++ mkrecs id a 0 integs confs).
Proof.
  intros Ha. cbn [parse_records].
  change (N.shiftr 192 1 =? 96) with true. change (N.land 192 1 =? 1) with false.
  cbn [negb length Nat.ltb Nat.leb get nth_error skipn]. rewrite Ha. cbn [N.eqb negb].
  destruct (take_tagged 1 tl) as [integs r1]. destruct (take_tagged 2 r1) as [confs r2].
  reflexivity.
Qed.

Lemma parse_step_oem f id e0 e1 e2 a tl acc : N.shiftr a 6 = 0 ->
  parse_records (S f) (0xC1 :: id :: e0 :: e1 :: e2 :: a :: tl) acc =
  let '(integs, r1) := take_tagged 1 tl in
  let '(confs, r2) := take_tagged 2 r1 in
  parse_records f r2 (acc ++ mkrecs id a (le24 e0 e1 e2) integs confs).
Proof.
  intros Ha. cbn [parse_records].
  change (N.shiftr 193 1 =? 96) with true. change (N.land 193 1 =? 1) with true.
  cbn [negb length Nat.ltb Nat.leb get nth_error skipn nth]. rewrite Ha. cbn [N.eqb negb].
  destruct (take_tagged 1 tl) as [integs r1]. destruct (take_tagged 2 r1) as [confs r2].
  reflexivity.
Qed.

(* what follows a record: the end, or the tag byte of the next record *)
Definition rec_start (rest : bytes) : Prop :=
  match rest with [] => True | b :: _ => N.shiftr b 6 = 3 end.
Lemma rec_start_stops tag rest : tag <> 3 -> rec_start rest -> stops tag rest.
Proof. destruct rest; cbn [rec_start stops]; intros; congruence. Qed.
Lemma stops1_confs l rest : Forall (fun c => c < 64) l -> rec_start rest ->
  stops 1 (map (fun c => 0x80 + c) l ++ rest).
Proof.
  intros Hl Hr. destruct Hl as [|c l Hc Hl]; cbn [map app].
  - apply rec_start_stops; [lia|exact Hr].
  - cbn [stops]. destruct (tag2 c Hc) as [-> _]. lia.
Qed.

Lemma encode_records_start rs : rec_start (encode_records rs).
Proof.
  destruct rs as [|r rs]; cbn [encode_records flat_map rec_start]; [exact I|].
  unfold encode_record, encode_header. destruct (cs_oem r); reflexivity.
Qed.

Lemma parse_encode_step f r rest acc : wf r -> rec_start rest ->
  parse_records (S f) (encode_record r ++ rest) acc = parse_records f rest (acc ++ expand r).
Proof.
  intros (Hid & Ha & Hi & Hc & Hoem) Hr.
  pose proof (tag0 _ Ha) as Ha0.
  unfold encode_record, encode_header, expand.
  destruct (cs_oem r) as [iana|].
  - unfold put_le24. cbn [app]. rewrite parse_step_oem by exact Ha0.
    rewrite <- app_assoc.
    rewrite take_tagged_1 by (auto using stops1_confs).
    rewrite take_tagged_2 by first [assumption | apply rec_start_stops; [lia|exact Hr]].
    rewrite le24_put by (change (2 ^ 24) with 16777216 in Hoem; exact Hoem). reflexivity.
  - cbn [app]. rewrite parse_step_std by exact Ha0.
    rewrite <- app_assoc.
    rewrite take_tagged_1 by (auto using stops1_confs).
    rewrite take_tagged_2 by first [assumption | apply rec_start_stops; [lia|exact Hr]].
    reflexivity.
Qed.

Lemma parse_encode_gen rs : Forall wf rs -> forall fuel acc, (length rs <= fuel)%nat ->
  parse_records fuel (encode_records rs) acc = RsOk (acc ++ flat_map expand rs).
Proof.
  induction 1 as [|r rs Hr Hrs IH]; intros fuel acc Hf.
  - cbn [encode_records flat_map]. rewrite app_nil_r. destruct fuel; reflexivity.
  - destruct fuel as [|f]; [cbn [length] in Hf; lia|].
    change (encode_records (r :: rs)) with (encode_record r ++ encode_records rs).
    rewrite parse_encode_step by (auto using encode_records_start).
    rewrite IH by (cbn [length] in Hf; lia).
    cbn [flat_map]. rewrite app_assoc. reflexivity.
Qed.

Lemma encode_record_length r : (3 <= length (encode_record r))%nat.
Proof.
  unfold encode_record, encode_header. destruct (cs_oem r); rewrite !app_length; cbn [length put_le24 app]; lia.
Qed.
Lemma encode_records_length rs : (3 * length rs <= length (encode_records rs))%nat.
Proof.
  induction rs as [|r rs IH]; cbn [encode_records flat_map length]; [lia|].
  rewrite app_length. pose proof (encode_record_length r). unfold encode_records in IH. lia.
Qed.

Theorem parse_encode rs : Forall wf rs ->
  parse_records (length (encode_records rs)) (encode_records rs) [] = RsOk (flat_map expand rs).
Proof.
  intros H. rewrite parse_encode_gen; [reflexivity|exact H|].
  pose proof (encode_records_length rs). lia.
Qed.

(* ---- malformed input is rejected ---- *)
Lemma tag_byte_inv b : N.shiftr b 1 = 0x60 -> b = 0xC0 \/ b = 0xC1.
Proof. rewrite N.shiftr_div_pow2. change (2 ^ 1) with 2. lia. Qed.

Theorem parse_bad_tag f b r acc : b <> 0xC0 -> b <> 0xC1 -> parse_records (S f) (b :: r) acc = RsErr.
Proof.
  intros H0 H1. cbn [parse_records].
  destruct (N.eqb_spec (N.shiftr b 1) 0x60) as [E|E]; [|reflexivity].
  apply tag_byte_inv in E. tauto.
Qed.

Theorem parse_truncated_std f r acc : (length r < 2)%nat -> parse_records (S f) (0xC0 :: r) acc = RsErr.
Proof.
  intros H. cbn [parse_records].
  change (N.shiftr 192 1 =? 96) with true. change (N.land 192 1 =? 1) with false. cbn [negb].
  destruct r as [|x [|y r]]; cbn [length] in *; try lia; reflexivity.
Qed.
Theorem parse_truncated_oem f r acc : (length r < 5)%nat -> parse_records (S f) (0xC1 :: r) acc = RsErr.
Proof.
  intros H. cbn [parse_records].
  change (N.shiftr 193 1 =? 96) with true. change (N.land 193 1 =? 1) with true. cbn [negb].
  destruct r as [|x1 [|x2 [|x3 [|x4 [|x5 r]]]]]; cbn [length] in *; try lia; reflexivity.
Qed.
Theorem parse_bad_auth_std f id a tl acc : N.shiftr a 6 <> 0 -> parse_records (S f) (0xC0 :: id :: a :: tl) acc = RsErr.
Proof.
  intros H. cbn [parse_records].
  change (N.shiftr 192 1 =? 96) with true. change (N.land 192 1 =? 1) with false.
  cbn [negb length Nat.ltb Nat.leb get nth_error].
  destruct (N.eqb_spec (N.shiftr a 6) 0); [contradiction|reflexivity].
Qed.
Theorem parse_bad_auth_oem f id e0 e1 e2 a tl acc : N.shiftr a 6 <> 0 ->
  parse_records (S f) (0xC1 :: id :: e0 :: e1 :: e2 :: a :: tl) acc = RsErr.
Proof.
  intros H. cbn [parse_records].
  change (N.shiftr 193 1 =? 96) with true. change (N.land 193 1 =? 1) with true.
  cbn [negb length Nat.ltb Nat.leb get nth_error].
  destruct (N.eqb_spec (N.shiftr a 6) 0); [contradiction|reflexivity].
Qed.

(* a record cut anywhere inside its fixed part (tag, ID, [IANA], authentication algorithm) is an error *)
Theorem parse_truncated_record f r n acc : (0 < n)%nat -> (n < length (encode_header r) + 1)%nat ->
  parse_records (S f) (firstn n (encode_record r)) acc = RsErr.
Proof.
  unfold encode_record, encode_header. destruct (cs_oem r) as [iana|]; unfold put_le24; cbn [app length]; intros H0 H1.
  - destruct n as [|n]; [lia|]. cbn [firstn]. apply parse_truncated_oem.
    rewrite firstn_length. lia.
  - destruct n as [|n]; [lia|]. cbn [firstn]. apply parse_truncated_std.
    rewrite firstn_length. lia.
Qed.

(* ---- soundness: whatever parses is the encoding of well-formed records ---- *)
Lemma tagged_inv b t : N.shiftr b 6 = t -> b = 64 * t + N.land b 0x3f /\ N.land b 0x3f < 64.
Proof.
  rewrite N.shiftr_div_pow2. change 0x3f with (N.ones 6). rewrite N.land_ones.
  change (2 ^ 6) with 64. lia.
Qed.

Lemma take_tagged_inv t bs : forall xs rest, take_tagged t bs = (xs, rest) ->
  bs = map (fun i => 64 * t + i) xs ++ rest /\ Forall (fun i => i < 64) xs /\ stops t rest.
Proof.
  induction bs as [|b r IH]; intros xs rest; cbn [take_tagged].
  - intros E. injection E as <- <-. repeat split; constructor.
  - destruct (N.eqb_spec (N.shiftr b 6) t) as [E|E].
    + destruct (take_tagged t r) as [xs' rest'] eqn:ET. intros E'. injection E' as <- <-.
      destruct (IH _ _ eq_refl) as (-> & HF & HS). destruct (tagged_inv _ _ E) as [Hb Hl].
      cbn [map app]. rewrite <- Hb. repeat split; auto.
    + intros E'. injection E' as <- <-. repeat split; [constructor|exact E].
Qed.

Lemma tag0_inv a : N.shiftr a 6 = 0 -> a < 64.
Proof. rewrite N.shiftr_div_pow2. change (2 ^ 6) with 64. lia. Qed.

Lemma Forall_app_r {A} (P : A -> Prop) xs ys : Forall P (xs ++ ys) -> Forall P ys.
Proof. intros H. apply Forall_app in H. tauto. Qed.

Theorem parse_sound n : forall bs acc out, Forall (fun b => b < 256) bs ->
  parse_records n bs acc = RsOk out ->
  exists rs, Forall wf rs /\ bs = encode_records rs /\ out = acc ++ flat_map expand rs.
Proof.
  assert (base : forall acc out, RsOk acc = RsOk out ->
            exists rs, Forall wf rs /\ [] = encode_records rs /\ out = acc ++ flat_map expand rs).
  { intros acc out E. injection E as <-. exists []. cbn [flat_map encode_records]. rewrite app_nil_r. auto. }
  induction n as [|f IH]; intros bs acc out HB H.
  - destruct bs; cbn [parse_records] in H; [auto|discriminate].
  - destruct bs as [|b0 tl]; [cbn [parse_records] in H; auto|].
    destruct (N.eq_dec b0 0xC0) as [->|N0]; [|destruct (N.eq_dec b0 0xC1) as [->|N1]].
    + destruct tl as [|id [|a tl]]; try (rewrite parse_truncated_std in H by (cbn [length]; lia); discriminate).
      destruct (N.eq_dec (N.shiftr a 6) 0) as [Ha|Ha]; [|rewrite parse_bad_auth_std in H by exact Ha; discriminate].
      rewrite parse_step_std in H by exact Ha.
      destruct (take_tagged 1 tl) as [integs r1] eqn:E1. destruct (take_tagged 2 r1) as [confs r2] eqn:E2.
      apply take_tagged_inv in E1, E2. destruct E1 as (-> & HI & _). destruct E2 as (-> & HC & _).
      inversion HB as [|? ? _ HB1]; subst. inversion HB1 as [|? ? Hid HB2]; subst.
      inversion HB2 as [|? ? _ HB3]; subst. apply Forall_app_r, Forall_app_r in HB3.
      destruct (IH _ _ _ HB3 H) as (rs & Hwf & -> & ->).
      exists ({| cs_id := id; cs_oem := None; cs_auth := a; cs_integs := integs; cs_confs := confs |} :: rs).
      split; [constructor; [|exact Hwf]|split].
      * unfold wf; cbn. auto using tag0_inv.
      * cbn [encode_records flat_map]. unfold encode_record, encode_header. cbn [cs_id cs_oem cs_auth cs_integs cs_confs app].
        rewrite <- app_assoc. reflexivity.
      * cbn [flat_map]. rewrite app_assoc. reflexivity.
    + destruct tl as [|id [|e0 [|e1 [|e2 [|a tl]]]]]; try (rewrite parse_truncated_oem in H by (cbn [length]; lia); discriminate).
      destruct (N.eq_dec (N.shiftr a 6) 0) as [Ha|Ha]; [|rewrite parse_bad_auth_oem in H by exact Ha; discriminate].
      rewrite parse_step_oem in H by exact Ha.
      destruct (take_tagged 1 tl) as [integs r1] eqn:E1. destruct (take_tagged 2 r1) as [confs r2] eqn:E2.
      apply take_tagged_inv in E1, E2. destruct E1 as (-> & HI & _). destruct E2 as (-> & HC & _).
      inversion HB as [|? ? _ HB1]; subst. inversion HB1 as [|? ? Hid HB2]; subst.
      inversion HB2 as [|? ? He0 HB3]; subst. inversion HB3 as [|? ? He1 HB4]; subst.
      inversion HB4 as [|? ? He2 HB5]; subst. inversion HB5 as [|? ? _ HB6]; subst.
      apply Forall_app_r, Forall_app_r in HB6.
      destruct (IH _ _ _ HB6 H) as (rs & Hwf & -> & ->).
      exists ({| cs_id := id; cs_oem := Some (le24 e0 e1 e2); cs_auth := a; cs_integs := integs; cs_confs := confs |} :: rs).
      assert (Hput : put_le24 (le24 e0 e1 e2) = [e0; e1; e2]).
      { unfold put_le24, le24. repeat (f_equal; try lia). }
      split; [constructor; [|exact Hwf]|split].
      * unfold wf; cbn [cs_id cs_oem cs_auth cs_integs cs_confs]. repeat split; auto using tag0_inv.
        change (2 ^ 24) with 16777216. unfold le24. lia.
      * cbn [encode_records flat_map]. unfold encode_record, encode_header. cbn [cs_id cs_oem cs_auth cs_integs cs_confs].
        rewrite Hput. cbn [app]. rewrite <- app_assoc. reflexivity.
      * cbn [flat_map]. rewrite app_assoc. reflexivity.
    + rewrite parse_bad_tag in H by assumption. discriminate.
Qed.

(* the form asked for: from the empty accumulator *)
Corollary parse_sound_partial n bs out : Forall (fun b => b < 256) bs ->
  parse_records n bs [] = RsOk out ->
  exists rs, Forall wf rs /\ bs = encode_records rs /\ out = flat_map expand rs.
Proof. intros HB H. exact (parse_sound n bs [] out HB H). Qed.

(* ===================================================================== *)
(* (3) DCMI paging                                                        *)
(* ===================================================================== *)
(* the server of one entity: [ids] in pages of [p], addressed by 1-based start *)
Definition page_server (ids : list N) (p : nat) : N -> option (N * list N) :=
  fun start => Some (N.of_nat (length ids), firstn p (skipn (N.to_nat start - 1) ids)).

Definition ceil_div (a b : nat) : nat := ((a + b - 1) / b)%nat.

Lemma firstn_page {A} (l : list A) : forall m p, firstn m l ++ firstn p (skipn m l) = firstn (m + p) l.
Proof.
  induction l as [|x l IH]; intros m p.
  - rewrite skipn_nil, !firstn_nil. reflexivity.
  - destruct m as [|m]; [reflexivity|]. cbn [firstn skipn Nat.add app]. rewrite IH. reflexivity.
Qed.

Section Paging.
  Variable ids : list N.
  Variable p : nat.
  Hypothesis Hlen : (length ids <= 255)%nat.
  Hypothesis Hp : (1 <= p)%nat.
  Let n := length ids.
  Let serve := page_server ids p.

  (* one request, from the state "the first m IDs are known", m < n *)
  Lemma ei_step f m req : (m < n)%nat ->
    entity_instances serve (firstn m ids) (S f) req =
    if Nat.ltb (m + p) n then entity_instances serve (firstn (m + p) ids) f (S req) else Some (ids, S req).
  Proof.
    intros Hm. subst n. cbn [entity_instances].
    rewrite firstn_length_le by lia.
    assert (Hu : u8 (N.of_nat m + 1) = N.of_nat m + 1) by (unfold u8; lia).
    rewrite Hu. unfold serve, page_server.
    replace (N.to_nat (N.of_nat m + 1) - 1)%nat with m by lia.
    rewrite firstn_page.
    assert (Hpage : Nat.eqb (length (firstn p (skipn m ids))) 0 = false).
    { apply Nat.eqb_neq. rewrite firstn_length, skipn_length. lia. }
    rewrite Hpage. cbn [orb]. rewrite firstn_length, Nat2N.id.
    destruct (Nat.ltb_spec (m + p) (length ids)) as [Hlt|Hge].
    - rewrite Nat.min_l by lia.
      destruct (Nat.eqb_spec (m + p) 255); [lia|].
      destruct (Nat.ltb_spec (m + p) (length ids)); [reflexivity|lia].
    - rewrite Nat.min_r by lia. rewrite firstn_all2 by lia.
      destruct (Nat.eqb (length ids) 255); [reflexivity|].
      rewrite Nat.ltb_irrefl. reflexivity.
  Qed.

  (* invariant: from "first m known", exactly j+1 more requests when j*p < n-m <= (j+1)*p,
     whatever fuel > j is left *)
  Lemma ei_pages j : forall m req fuel, (j * p < n - m)%nat -> (n - m <= j * p + p)%nat -> (j < fuel)%nat ->
    entity_instances serve (firstn m ids) fuel req = Some (ids, (req + S j)%nat).
  Proof.
    induction j as [|j IH]; intros m req fuel H1 H2 Hf; (destruct fuel as [|f]; [lia|]); rewrite ei_step by lia.
    - destruct (Nat.ltb_spec (m + p) n); [lia|]. do 2 f_equal. lia.
    - destruct (Nat.ltb_spec (m + p) n); [|lia].
      rewrite IH by lia. do 2 f_equal. lia.
  Qed.

  Lemma ei_empty f : n = 0%nat -> entity_instances serve [] (S f) 0 = Some (ids, 1%nat).
  Proof.
    intros H0. subst n. apply length_zero_iff_nil in H0. subst serve. rewrite H0.
    cbn [entity_instances length]. unfold page_server. rewrite skipn_nil, firstn_nil. reflexivity.
  Qed.

  Lemma ceil_div_pages : (0 < n)%nat -> ceil_div n p = S ((n - 1) / p).
  Proof.
    intros H. unfold ceil_div. replace (n + p - 1)%nat with ((n - 1) + 1 * p)%nat by lia.
    rewrite Nat.div_add by lia. lia.
  Qed.

  (* any fuel above the page count gives the whole list in max 1 (ceil (n / p)) requests *)
  Lemma entity_instances_all fuel : (Nat.max 1 (ceil_div n p) <= fuel)%nat ->
    entity_instances serve [] fuel 0 = Some (ids, Nat.max 1 (ceil_div n p)).
  Proof.
    intros Hf. destruct (Nat.eq_dec n 0) as [H0|H0].
    - destruct fuel as [|f]; [lia|]. rewrite ei_empty by exact H0.
      unfold ceil_div. rewrite H0. rewrite Nat.div_small by lia. reflexivity.
    - rewrite ceil_div_pages in * by lia.
      pose proof (Nat.div_mod (n - 1) p ltac:(lia)) as Hdm.
      pose proof (Nat.mod_upper_bound (n - 1) p ltac:(lia)) as Hub.
      rewrite (Nat.mul_comm p) in Hdm.
      change (@nil N) with (firstn 0 ids).
      rewrite (ei_pages ((n - 1) / p)) by lia.
      do 2 f_equal; try lia.
  Qed.

  Lemma pages_le_255 : (Nat.max 1 (ceil_div n p) <= 255)%nat.
  Proof.
    destruct (Nat.eq_dec n 0) as [H0|H0].
    - unfold ceil_div. rewrite H0. rewrite Nat.div_small by lia. lia.
    - rewrite ceil_div_pages by lia.
      assert ((n - 1) / p <= n - 1)%nat by (apply Nat.div_le_upper_bound; [lia|]; nia).
      subst n. lia.
  Qed.
End Paging.

(* GetSensorInfo for one entity: all the IDs, in max 1 (ceil (length ids / p)) requests.
   (The bound p <= 255 of the wire format is not needed.) *)
Theorem get_entity_instances_paged ids p : (length ids <= 255)%nat -> (1 <= p)%nat ->
  get_entity_instances (page_server ids p) = Some (ids, Nat.max 1 (ceil_div (length ids) p)).
Proof.
  intros Hl Hp. unfold get_entity_instances. apply entity_instances_all; try assumption.
  pose proof (pages_le_255 ids p Hl Hp). lia.
Qed.

(* the fuel (256) is never the reason for stopping: 255 requests always suffice, and any larger
   fuel gives the same answer *)
Theorem entity_instances_fuel_irrelevant ids p fuel : (length ids <= 255)%nat -> (1 <= p)%nat -> (255 <= fuel)%nat ->
  entity_instances (page_server ids p) [] fuel 0 = get_entity_instances (page_server ids p).
Proof.
  intros Hl Hp Hf. rewrite get_entity_instances_paged by assumption. apply entity_instances_all; try assumption.
  pose proof (pages_le_255 ids p Hl Hp). lia.
Qed.
Theorem entity_requests_le_255 ids p : (length ids <= 255)%nat -> (1 <= p)%nat ->
  exists k, get_entity_instances (page_server ids p) = Some (ids, k) /\ (1 <= k <= 255)%nat.
Proof.
  intros Hl Hp. eexists. split; [apply get_entity_instances_paged; assumption|].
  pose proof (pages_le_255 ids p Hl Hp). lia.
Qed.

(* the concrete server of Dispatch.v is a page server on every entity it knows and does not fail *)
Lemma serve_dcmi_page tbl fail p e k ids : existsb (N.eqb e) fail = false ->
  find (fun x => fst x =? e) tbl = Some (k, ids) -> (length ids <= 255)%nat ->
  forall start, serve_dcmi tbl fail p e start = page_server ids p start.
Proof.
  intros Hf Hfind Hl start. unfold serve_dcmi, page_server. rewrite Hf, Hfind.
  rewrite N.mod_small by lia. reflexivity.
Qed.

(* ---- GetSensorInfo: the IPMI entity IDs first, the DCMI ones as a fallback ---- *)
Lemma sensor_map_3 serve e1 e2 e3 :
  sensor_map serve [e1; e2; e3] =
  match get_entity_instances (serve e1), get_entity_instances (serve e2), get_entity_instances (serve e3) with
  | Some (l1, _), Some (l2, _), Some (l3, _) => Some [l1; l2; l3]
  | _, _, _ => None
  end.
Proof.
  cbn [sensor_map].
  destruct (get_entity_instances (serve e1)) as [[l1 r1]|];
  destruct (get_entity_instances (serve e2)) as [[l2 r2]|];
  destruct (get_entity_instances (serve e3)) as [[l3 r3]|]; reflexivity.
Qed.

(* (a) all three standard entities answer and at least one has an instance: the standard lists *)
Theorem get_sensor_info_standard serve l1 r1 l2 r2 l3 r3 :
  get_entity_instances (serve 0x37) = Some (l1, r1) ->
  get_entity_instances (serve 0x03) = Some (l2, r2) ->
  get_entity_instances (serve 0x07) = Some (l3, r3) ->
  l1 ++ l2 ++ l3 <> [] ->
  get_sensor_info serve = Some [l1; l2; l3].
Proof.
  intros H1 H2 H3 Hne. unfold get_sensor_info, ipmi_entities. rewrite sensor_map_3, H1, H2, H3.
  cbn [concat]. rewrite app_nil_r.
  destruct (l1 ++ l2 ++ l3); [contradiction|reflexivity].
Qed.

(* (b) all three answer with no instance at all: the DCMI entity IDs are used *)
Theorem get_sensor_info_fallback_empty serve r1 r2 r3 :
  get_entity_instances (serve 0x37) = Some ([], r1) ->
  get_entity_instances (serve 0x03) = Some ([], r2) ->
  get_entity_instances (serve 0x07) = Some ([], r3) ->
  get_sensor_info serve = sensor_map serve dcmi_entities.
Proof.
  intros H1 H2 H3. unfold get_sensor_info, ipmi_entities. rewrite sensor_map_3, H1, H2, H3. reflexivity.
Qed.

(* (c) one of the three fails: the DCMI entity IDs are used *)
Theorem get_sensor_info_fallback_error serve e :
  In e ipmi_entities -> get_entity_instances (serve e) = None ->
  get_sensor_info serve = sensor_map serve dcmi_entities.
Proof.
  intros Hin Hnone. unfold get_sensor_info. unfold ipmi_entities in *. rewrite sensor_map_3.
  cbn [In] in Hin. destruct Hin as [<-|[<-|[<-|[]]]]; rewrite Hnone.
  - reflexivity.
  - destruct (get_entity_instances (serve 0x37)) as [[? ?]|]; reflexivity.
  - destruct (get_entity_instances (serve 0x37)) as [[? ?]|];
    destruct (get_entity_instances (serve 0x03)) as [[? ?]|]; reflexivity.
Qed.

(* the "iff": the standard entities are used exactly when all answer and some list is non-empty *)
Theorem get_sensor_info_cases serve :
  (exists l1 r1 l2 r2 l3 r3,
      get_entity_instances (serve 0x37) = Some (l1, r1) /\ get_entity_instances (serve 0x03) = Some (l2, r2) /\
      get_entity_instances (serve 0x07) = Some (l3, r3) /\ l1 ++ l2 ++ l3 <> [] /\
      get_sensor_info serve = Some [l1; l2; l3])
  \/ (((exists e, In e ipmi_entities /\ get_entity_instances (serve e) = None) \/
       (exists r1 r2 r3, get_entity_instances (serve 0x37) = Some ([], r1) /\
                         get_entity_instances (serve 0x03) = Some ([], r2) /\
                         get_entity_instances (serve 0x07) = Some ([], r3)))
      /\ get_sensor_info serve = sensor_map serve dcmi_entities).
Proof.
  assert (Hin : forall e, e = 0x37 \/ e = 0x03 \/ e = 0x07 -> In e ipmi_entities).
  { unfold ipmi_entities. cbn [In]. intros e [ -> | [ -> | -> ] ]; tauto. }
  destruct (get_entity_instances (serve 0x37)) as [[l1 r1]|] eqn:H1.
  2:{ right. split; [left; exists 0x37; split; [apply Hin; tauto|exact H1]
                    |exact (get_sensor_info_fallback_error serve 0x37 (Hin 0x37 ltac:(tauto)) H1)]. }
  destruct (get_entity_instances (serve 0x03)) as [[l2 r2]|] eqn:H2.
  2:{ right. split; [left; exists 0x03; split; [apply Hin; tauto|exact H2]
                    |exact (get_sensor_info_fallback_error serve 0x03 (Hin 0x03 ltac:(tauto)) H2)]. }
  destruct (get_entity_instances (serve 0x07)) as [[l3 r3]|] eqn:H3.
  2:{ right. split; [left; exists 0x07; split; [apply Hin; tauto|exact H3]
                    |exact (get_sensor_info_fallback_error serve 0x07 (Hin 0x07 ltac:(tauto)) H3)]. }
  destruct (l1 ++ l2 ++ l3) as [|x t] eqn:E.
  - apply app_eq_nil in E as [-> E]. apply app_eq_nil in E as [-> ->].
    right. split; [right; exists r1, r2, r3; repeat split; reflexivity
                  |exact (get_sensor_info_fallback_empty serve r1 r2 r3 H1 H2 H3)].
  - assert (Hne : l1 ++ l2 ++ l3 <> []) by (rewrite E; discriminate).
    left. exists l1, r1, l2, r2, l3, r3.
    split; [reflexivity|]. split; [reflexivity|]. split; [reflexivity|]. split; [rewrite E; discriminate|].
    exact (get_sensor_info_standard serve l1 r1 l2 r2 l3 r3 H1 H2 H3 Hne).
Qed.

(* a whole DCMI server made of page servers: every entity list is returned as it is *)
Lemma sensor_map_paged (tbl : N -> list N) p es : (1 <= p)%nat ->
  (forall e, In e es -> (length (tbl e) <= 255)%nat) ->
  sensor_map (fun e => page_server (tbl e) p) es = Some (map tbl es).
Proof.
  intros Hp. induction es as [|e es IH]; intros Hl; cbn [sensor_map map]; [reflexivity|].
  rewrite get_entity_instances_paged by (try assumption; apply Hl; left; reflexivity).
  rewrite IH by (intros; apply Hl; right; assumption). reflexivity.
Qed.

Theorem get_sensor_info_paged (tbl : N -> list N) p : (1 <= p)%nat ->
  (forall e, (length (tbl e) <= 255)%nat) ->
  get_sensor_info (fun e => page_server (tbl e) p) =
  Some (match tbl 0x37 ++ tbl 0x03 ++ tbl 0x07 with
        | [] => map tbl dcmi_entities
        | _ => map tbl ipmi_entities
        end).
Proof.
  intros Hp Hl. unfold get_sensor_info. rewrite !sensor_map_paged by auto.
  unfold ipmi_entities at 1. cbn [map concat]. rewrite app_nil_r.
  destruct (tbl 55 ++ tbl 3 ++ tbl 7); reflexivity.
Qed.

(* ===================================================================== *)
(* (2) chunked retrieval of the cipher-suite record data                  *)
(* ===================================================================== *)
(* k full 16-byte pieces, then whatever is left *)
Fixpoint chunks_n (k : nat) (data : bytes) : list bytes :=
  match k with
  | O => [data]
  | S k' => firstn 16 data :: chunks_n k' (skipn 16 data)
  end.
Definition chunks16 (data : bytes) : list bytes := chunks_n (length data / 16) data.

Lemma chunks_n_length k data : length (chunks_n k data) = S k.
Proof. revert data; induction k as [|k IH]; intros data; cbn [chunks_n length]; [reflexivity|]. rewrite IH. reflexivity. Qed.
Lemma chunks16_length data : length (chunks16 data) = (length data / 16 + 1)%nat.
Proof. unfold chunks16. rewrite chunks_n_length. lia. Qed.
Lemma chunks_n_concat k data : concat (chunks_n k data) = data.
Proof.
  revert data; induction k as [|k IH]; intros data; cbn [chunks_n concat].
  - apply app_nil_r.
  - rewrite IH. apply firstn_skipn.
Qed.
Lemma chunks16_concat data : concat (chunks16 data) = data.
Proof. apply chunks_n_concat. Qed.

Lemma serve_chunks_at pre c rest idx : length pre = N.to_nat idx ->
  serve_chunks (map Some (pre ++ c :: rest)) idx = Some c.
Proof.
  intros H. unfold serve_chunks. rewrite map_app, nth_error_app2 by (rewrite map_length; lia).
  rewrite map_length, H, Nat.sub_diag. reflexivity.
Qed.

Lemma land_3f idx : idx < 64 -> N.land idx 0x3f = idx.
Proof. intros H. change 0x3f with (N.ones 6). rewrite N.land_ones. change (2 ^ 6) with 64. apply N.mod_small, H. Qed.

Lemma retrieve_chunks_gen k : forall data pre idx fuel acc req,
  length pre = N.to_nat idx -> (N.to_nat idx + k <= 63)%nat -> (k < fuel)%nat ->
  (k * 16 <= length data)%nat -> (length data < k * 16 + 16)%nat ->
  retrieve_chunks (serve_chunks (map Some (pre ++ chunks_n k data))) idx fuel acc req
  = Some (acc ++ data, (req + S k)%nat).
Proof.
  induction k as [|k IH]; intros data pre idx fuel acc req Hpre Hidx Hf Hlo Hhi;
    (destruct fuel as [|f]; [lia|]); cbn [retrieve_chunks chunks_n];
    rewrite land_3f by lia; rewrite serve_chunks_at by exact Hpre.
  - destruct (Nat.ltb_spec (length data) 16); [|lia].
    rewrite orb_true_r. do 2 f_equal. lia.
  - destruct (N.eqb_spec idx 64); [lia|]. cbn [orb].
    rewrite firstn_length, Nat.min_l by lia. rewrite Nat.ltb_irrefl.
    replace (pre ++ firstn 16 data :: chunks_n k (skipn 16 data))
      with ((pre ++ [firstn 16 data]) ++ chunks_n k (skipn 16 data)) by (rewrite <- app_assoc; reflexivity).
    rewrite IH.
    + rewrite <- app_assoc, firstn_skipn. do 2 f_equal. lia.
    + rewrite app_length. cbn [length]. lia.
    + lia.
    + lia.
    + rewrite skipn_length. lia.
    + rewrite skipn_length. lia.
Qed.

Theorem retrieve_all data : (length data < 16 * 64)%nat ->
  retrieve_chunks (serve_chunks (map Some (chunks16 data))) 0 65 [] 0 = Some (data, S (length data / 16)).
Proof.
  intros H. unfold chunks16.
  pose proof (Nat.div_mod (length data) 16 ltac:(lia)) as Hdm.
  pose proof (Nat.mod_upper_bound (length data) 16 ltac:(lia)) as Hub.
  change (chunks_n (length data / 16) data) with ([] ++ chunks_n (length data / 16) data).
  rewrite retrieve_chunks_gen; try reflexivity; lia.
Qed.

(* cipher-suite discovery against a BMC serving the encoded records in 16-byte chunks *)
Theorem retrieve_cipher_suites_encoded rs : Forall wf rs -> (length (encode_records rs) < 16 * 64)%nat ->
  retrieve_cipher_suites (serve_chunks (map Some (chunks16 (encode_records rs)))) = Some (RsOk (flat_map expand rs)).
Proof.
  intros Hwf Hlen. unfold retrieve_cipher_suites. rewrite retrieve_all by exact Hlen.
  rewrite parse_encode by exact Hwf. reflexivity.
Qed.
