(* TimingProc.v — C13 beyond one retry loop: the blocking calls the property lists are compositions.

   1. [retry_k]: one retry loop with the three kinds of attempt outcome the two command loops distinguish
      (v2sessionless.go SendCommand / buildAndSendPayload, v2session.go SendCommand): a reply that is a valid final
      response, a reply that is not (garbage, temporary code: retried), no reply inside the window (transport error:
      retried outside a session, terminal inside one).  [retry_k false] is [Timing.retry] (proved).
   2. [run_calls]: several such loops one after the other under ONE context, stopping at the first that fails - the
      session handshake (discovery, Open Session, RAKP 1, RAKP 3), session close, one round of the SDR walk.
   3. [outer]: backoff.Retry around whole rounds (RetrieveSDRRepository): a round is any operation that, started at t,
      ends between t and max(D, t); a failed round is repeated after a sleep unless the context is done; a sleep that
      would pass the deadline ends at the deadline with the context's error (backoff v4.3.0).
   Time is an N (the unit is whatever the caller uses; the correspondence run uses milliseconds). *)
From BMC Require Import Base Timing.
From Coq Require Import ZifyN ZifyNat ZifyBool.
Ltac Zify.zify_post_hook ::= Z.div_mod_to_equations.

(* ---------- 1. one loop, three outcomes ---------- *)
Inductive reply := Final | Again.                 (* what the reply is, should it arrive in time *)
Definition attempt_k := (N * reply)%type.         (* (time the reply needs, its kind) *)

Definition is_final (r : reply) : bool := match r with Final => true | Again => false end.

Fixpoint retry_k (sess : bool) (t D T : N) (atts : list attempt_k) (sleeps : list N) : call_result :=
  match atts with
  | [] => {| cr_end := t; cr_ok := false; cr_attempts := 0 |}
  | (d, k) :: rest =>
      let window := N.min T (D - t) in
      let t1 := t + N.min d window in
      let stop := {| cr_end := t1; cr_ok := false; cr_attempts := 1 |} in
      if is_final k && (d <=? window) then {| cr_end := t1; cr_ok := true; cr_attempts := 1 |}
      else if sess && negb (d <=? window) then stop            (* in a session a transport error is terminal *)
      else if D <=? t1 then stop
      else match sleeps with
           | [] => stop
           | s :: srest =>
               if D <=? t1 + s then {| cr_end := D; cr_ok := false; cr_attempts := 1 |}
               else let r := retry_k sess (t1 + s) D T rest srest in
                    {| cr_end := cr_end r; cr_ok := cr_ok r; cr_attempts := S (cr_attempts r) |}
           end
  end.

Definition forget (a : attempt_k) : attempt := (fst a, is_final (snd a)).

(* outside a session the three-outcome loop is the loop of Timing.v *)
Theorem retry_k_sessionless : forall atts sleeps t D T,
  retry_k false t D T atts sleeps = retry t D T (map forget atts) sleeps.
Proof.
  induction atts as [|[d k] rest IH]; intros sleeps t D T; cbn [retry_k retry map forget fst snd]; [reflexivity|].
  cbn [andb]. destruct (is_final k && (d <=? N.min T (D - t)))%bool; [reflexivity|].
  destruct (D <=? t + N.min d (N.min T (D - t))); [reflexivity|].
  destruct sleeps as [|s srest]; [reflexivity|].
  destruct (D <=? t + N.min d (N.min T (D - t)) + s); [reflexivity|].
  rewrite IH. reflexivity.
Qed.

Theorem retry_k_bounds : forall sess atts sleeps t D T,
  t <= cr_end (retry_k sess t D T atts sleeps) <= N.max D t.
Proof.
  intros sess. induction atts as [|[d k] rest IH]; intros sleeps t D T; cbn [retry_k cr_end]; [lia|].
  set (window := N.min T (D - t)). set (t1 := t + N.min d window).
  assert (H1 : t <= t1 <= N.max D t) by (subst t1 window; lia).
  destruct (is_final k && (d <=? window))%bool; cbn [cr_end]; [exact H1|].
  destruct (sess && negb (d <=? window))%bool; cbn [cr_end]; [exact H1|].
  destruct (N.leb_spec D t1); cbn [cr_end]; [exact H1|].
  destruct sleeps as [|s srest]; cbn [cr_end]; [exact H1|].
  destruct (N.leb_spec D (t1 + s)); cbn [cr_end]; [lia|].
  specialize (IH srest (t1 + s) D T). lia.
Qed.

Theorem retry_k_no_false_success : forall sess atts sleeps t D T,
  cr_ok (retry_k sess t D T atts sleeps) = true -> exists d, In (d, Final) atts /\ d <= T.
Proof.
  intros sess. induction atts as [|[d k] rest IH]; intros sleeps t D T; cbn [retry_k cr_ok]; [discriminate|].
  set (window := N.min T (D - t)). set (t1 := t + N.min d window).
  destruct (is_final k && (d <=? window))%bool eqn:E; cbn [cr_ok].
  - intros _. apply andb_true_iff in E. destruct E as [Ek E]. destruct k; [|discriminate].
    exists d. split; [left; reflexivity|]. subst window. lia.
  - destruct (sess && negb (d <=? window))%bool; cbn [cr_ok]; [discriminate|].
    destruct (D <=? t1); cbn [cr_ok]; [discriminate|].
    destruct sleeps as [|s srest]; cbn [cr_ok]; [discriminate|].
    destruct (D <=? t1 + s); cbn [cr_ok]; [discriminate|].
    intros H. destruct (IH _ _ _ _ H) as [d' [Hin Hd]]. exists d'. split; [right; exact Hin|exact Hd].
Qed.

(* in a session, the first attempt whose reply does not arrive inside its window ends the call: nothing is sent after it *)
Theorem retry_k_session_loss_terminal : forall d k rest sleeps t D T,
  N.min T (D - t) < d ->
  let r := retry_k true t D T ((d, k) :: rest) sleeps in
  cr_ok r = false /\ cr_attempts r = 1%nat /\ cr_end r = t + N.min T (D - t).
Proof.
  intros d k rest sleeps t D T Hd. cbn [retry_k].
  destruct (N.leb_spec d (N.min T (D - t))); [lia|].
  rewrite andb_false_r. cbn [andb negb cr_ok cr_attempts cr_end].
  repeat split. f_equal. lia.
Qed.

(* with an expired context: one attempt of no duration, success only on a final reply that needs no time *)
Theorem retry_k_expired : forall sess atts sleeps t D T, D <= t -> atts <> [] ->
  let r := retry_k sess t D T atts sleeps in
  cr_end r = t /\ cr_attempts r = 1%nat /\ (cr_ok r = true -> exists rest, atts = (0, Final) :: rest).
Proof.
  intros sess atts sleeps t D T HD Hne. destruct atts as [|[d k] rest]; [contradiction|]. cbn [retry_k].
  replace (D - t) with 0 by lia. rewrite N.min_0_r, N.min_0_r, N.add_0_r.
  destruct k; cbn [is_final andb].
  - destruct (N.leb_spec d 0).
    + cbn. repeat split. intros _. exists rest. f_equal. f_equal. lia.
    + destruct (sess && negb false)%bool; [cbn; repeat split; discriminate|].
      destruct (N.leb_spec D t); [|lia]. cbn. repeat split. discriminate.
  - destruct (sess && negb (d <=? 0))%bool; [cbn; repeat split; discriminate|].
    destruct (N.leb_spec D t); [|lia]. cbn. repeat split. discriminate.
Qed.

(* ---------- 2. several loops under one context ---------- *)
Record proc_result := { pr_end : N; pr_ok : bool; pr_calls : nat; pr_attempts : nat }.

Definition call := (list attempt_k * list N)%type.    (* what each attempt of this exchange meets; its back-off sleeps *)

Fixpoint run_calls (sess : bool) (t D T : N) (calls : list call) : proc_result :=
  match calls with
  | [] => {| pr_end := t; pr_ok := true; pr_calls := 0; pr_attempts := 0 |}
  | (atts, sleeps) :: rest =>
      let r := retry_k sess t D T atts sleeps in
      if cr_ok r then
        let p := run_calls sess (cr_end r) D T rest in
        {| pr_end := pr_end p; pr_ok := pr_ok p; pr_calls := S (pr_calls p); pr_attempts := cr_attempts r + pr_attempts p |}
      else {| pr_end := cr_end r; pr_ok := false; pr_calls := 1; pr_attempts := cr_attempts r |}
  end.

Theorem run_calls_bounds : forall sess calls t D T,
  t <= pr_end (run_calls sess t D T calls) <= N.max D t.
Proof.
  intros sess. induction calls as [|[atts sleeps] rest IH]; intros t D T; cbn [run_calls pr_end]; [lia|].
  pose proof (retry_k_bounds sess atts sleeps t D T) as B.
  destruct (cr_ok (retry_k sess t D T atts sleeps)); cbn [pr_end]; [|exact B].
  specialize (IH (cr_end (retry_k sess t D T atts sleeps)) D T). lia.
Qed.

(* the procedure reports success only if EVERY exchange met a final reply inside the per-attempt timeout *)
Theorem run_calls_no_false_success : forall sess calls t D T,
  pr_ok (run_calls sess t D T calls) = true ->
  Forall (fun c : call => exists d, In (d, Final) (fst c) /\ d <= T) calls.
Proof.
  intros sess. induction calls as [|[atts sleeps] rest IH]; intros t D T; cbn [run_calls]; [constructor|].
  destruct (cr_ok (retry_k sess t D T atts sleeps)) eqn:E; cbn [pr_ok]; [|discriminate].
  intros H. constructor.
  - cbn [fst]. exact (retry_k_no_false_success _ _ _ _ _ _ E).
  - exact (IH _ _ _ H).
Qed.

(* nothing is attempted after the first exchange that fails *)
Theorem run_calls_stop_at_failure : forall sess calls t D T,
  pr_ok (run_calls sess t D T calls) = false -> (pr_calls (run_calls sess t D T calls) <= length calls)%nat /\
  exists pre c post, calls = pre ++ c :: post /\ length pre = pred (pr_calls (run_calls sess t D T calls)) /\
    pr_ok (run_calls sess t D T pre) = true /\
    cr_ok (retry_k sess (pr_end (run_calls sess t D T pre)) D T (fst c) (snd c)) = false.
Proof.
  intros sess. induction calls as [|[atts sleeps] rest IH]; intros t D T; cbn [run_calls]; [discriminate|].
  destruct (cr_ok (retry_k sess t D T atts sleeps)) eqn:E; cbn [pr_ok pr_calls length].
  - intros H. destruct (IH _ _ _ H) as [Hlen [pre [c [post [-> [Hl [Hpre Hc]]]]]]]. split; [lia|].
    exists ((atts, sleeps) :: pre), c, post. cbn [app length run_calls]. rewrite E. cbn [pr_ok pr_end].
    repeat split; try assumption.
    destruct (pr_calls (run_calls sess (cr_end (retry_k sess t D T atts sleeps)) D T (pre ++ c :: post))) eqn:Ec.
    + (* a failed run made at least one call *)
      exfalso. revert H Ec. clear. generalize (cr_end (retry_k sess t D T atts sleeps)). intros t0.
      destruct (pre ++ c :: post) as [|[a s] l] eqn:El; [destruct pre; discriminate|]. cbn [run_calls].
      destruct (cr_ok (retry_k sess t0 D T a s)); cbn [pr_calls]; discriminate.
    + cbn [pred] in *. lia.
  - intros _. split; [lia|]. exists [], (atts, sleeps), rest. cbn [app length pred run_calls pr_ok pr_end fst snd].
    repeat split. exact E.
Qed.

(* with an expired context every exchange that is tried gets one attempt of no duration; the procedure ends at once *)
Theorem run_calls_expired : forall sess calls t D T, D <= t -> Forall (fun c : call => fst c <> []) calls ->
  let p := run_calls sess t D T calls in
  pr_end p = t /\ pr_attempts p = pr_calls p /\
  (calls <> [] -> pr_ok p = true -> Forall (fun c : call => exists rest, fst c = (0, Final) :: rest) calls).
Proof.
  intros sess. induction calls as [|[atts sleeps] rest IH]; intros t D T HD Hne; cbn [run_calls].
  { cbn. repeat split. intros H. contradiction. }
  inversion Hne as [|? ? Hne1 Hne2]; subst. cbn [fst] in Hne1.
  destruct (retry_k_expired sess atts sleeps t D T HD Hne1) as [He [Ha Hok]].
  destruct (cr_ok (retry_k sess t D T atts sleeps)) eqn:E; cbn [pr_end pr_ok pr_calls pr_attempts].
  - rewrite He. destruct (IH t D T HD Hne2) as [He2 [Ha2 Hok2]]. repeat split; [exact He2|lia|].
    intros _ H. constructor; [cbn [fst]; exact (Hok eq_refl)|].
    destruct rest as [|c rest']; [constructor|]. apply Hok2; [discriminate|exact H].
  - repeat split; [exact He|exact Ha|discriminate].
Qed.

(* ---------- 3. backoff.Retry around whole rounds ---------- *)
Definition op := N -> N * bool.                       (* started at t: (when it ends, whether it succeeded) *)
Definition op_bounded (D : N) (o : op) : Prop := forall t, t <= fst (o t) <= N.max D t.

Fixpoint outer (t D : N) (rounds : list op) (sleeps : list N) : call_result :=
  match rounds with
  | [] => {| cr_end := t; cr_ok := false; cr_attempts := 0 |}
  | o :: rest =>
      let t1 := fst (o t) in
      if snd (o t) then {| cr_end := t1; cr_ok := true; cr_attempts := 1 |}
      else if D <=? t1 then {| cr_end := t1; cr_ok := false; cr_attempts := 1 |}
      else match sleeps with
           | [] => {| cr_end := t1; cr_ok := false; cr_attempts := 1 |}
           | s :: srest =>
               if D <=? t1 + s then {| cr_end := D; cr_ok := false; cr_attempts := 1 |}
               else let r := outer (t1 + s) D rest srest in
                    {| cr_end := cr_end r; cr_ok := cr_ok r; cr_attempts := S (cr_attempts r) |}
           end
  end.

Theorem outer_bounds : forall D rounds sleeps t, Forall (op_bounded D) rounds ->
  t <= cr_end (outer t D rounds sleeps) <= N.max D t.
Proof.
  intros D. induction rounds as [|o rest IH]; intros sleeps t Hb; cbn [outer cr_end]; [lia|].
  inversion Hb as [|? ? Ho Hrest]; subst. specialize (Ho t).
  destruct (snd (o t)); cbn [cr_end]; [exact Ho|].
  destruct (N.leb_spec D (fst (o t))); cbn [cr_end]; [exact Ho|].
  destruct sleeps as [|s srest]; cbn [cr_end]; [exact Ho|].
  destruct (N.leb_spec D (fst (o t) + s)); cbn [cr_end]; [lia|].
  specialize (IH srest (fst (o t) + s) Hrest). lia.
Qed.

Theorem outer_no_false_success : forall D rounds sleeps t,
  cr_ok (outer t D rounds sleeps) = true -> exists o t', In o rounds /\ snd (o t') = true /\
  cr_end (outer t D rounds sleeps) = fst (o t').
Proof.
  intros D. induction rounds as [|o rest IH]; intros sleeps t; cbn [outer cr_ok cr_end]; [discriminate|].
  destruct (snd (o t)) eqn:E; cbn [cr_ok cr_end].
  - intros _. exists o, t. repeat split; [left; reflexivity|exact E].
  - destruct (D <=? fst (o t)); cbn [cr_ok]; [discriminate|].
    destruct sleeps as [|s srest]; cbn [cr_ok]; [discriminate|].
    destruct (D <=? fst (o t) + s); cbn [cr_ok cr_end]; [discriminate|].
    intros H. destruct (IH _ _ H) as [o' [t' [Hin [Hs He]]]]. exists o', t'. repeat split; [right; exact Hin|exact Hs|exact He].
Qed.

(* a procedure of exchanges is such an operation *)
Definition calls_op (sess : bool) (D T : N) (calls : list call) : op :=
  fun t => let p := run_calls sess t D T calls in (pr_end p, pr_ok p).

Lemma calls_op_bounded sess D T calls : op_bounded D (calls_op sess D T calls).
Proof. intros t. unfold calls_op. cbn [fst]. apply run_calls_bounds. Qed.

(* SDR repository retrieval: rounds of in-session exchanges (info, reserve, the walk, info) inside the outer loop *)
Definition retrieval (t D T : N) (rounds : list (list call)) (sleeps : list N) : call_result :=
  outer t D (map (calls_op true D T) rounds) sleeps.

Theorem retrieval_bounds : forall rounds sleeps t D T,
  t <= cr_end (retrieval t D T rounds sleeps) <= N.max D t.
Proof.
  intros rounds sleeps t D T. unfold retrieval. apply outer_bounds.
  apply Forall_forall. intros o Hin. apply in_map_iff in Hin. destruct Hin as [c [<- _]]. apply calls_op_bounded.
Qed.

Theorem retrieval_no_false_success : forall rounds sleeps t D T,
  cr_ok (retrieval t D T rounds sleeps) = true ->
  exists round, In round rounds /\ Forall (fun c : call => exists d, In (d, Final) (fst c) /\ d <= T) round.
Proof.
  intros rounds sleeps t D T H. unfold retrieval in H.
  destruct (outer_no_false_success _ _ _ _ H) as [o [t' [Hin [Hs _]]]].
  apply in_map_iff in Hin. destruct Hin as [round [<- Hin]]. exists round. split; [exact Hin|].
  unfold calls_op in Hs. cbn [snd] in Hs. exact (run_calls_no_false_success _ _ _ _ _ Hs).
Qed.

(* ---------- non-vacuity: concrete histories (milliseconds) ---------- *)
(* a silent peer, timeout 200, constant back-off 100, deadline 880: three attempts (0-200, 300-500, 600-800), the third
   sleep is cut short at the deadline *)
Example blackhole_880 :
  let r := retry_k false 0 880 200 [(5000, Final); (5000, Final); (5000, Final); (5000, Final); (5000, Final)] [100; 100; 100; 100; 100] in
  cr_end r = 880 /\ cr_ok r = false /\ cr_attempts r = 3%nat.
Proof. vm_compute. repeat split. Qed.
(* the same peer inside a session: one attempt *)
Example blackhole_session :
  let r := retry_k true 0 880 200 [(5000, Final); (5000, Final)] [100; 100] in
  cr_end r = 200 /\ cr_ok r = false /\ cr_attempts r = 1%nat.
Proof. vm_compute. repeat split. Qed.
(* a handshake whose third exchange meets the silent peer *)
Example handshake_third_silent :
  let ok := ([(1, Final)], [100]) in
  let silent := ([(5000, Final); (5000, Final); (5000, Final); (5000, Final)], [100; 100; 100; 100]) in
  let p := run_calls false 0 880 200 [ok; ok; silent] in
  pr_end p = 880 /\ pr_ok p = false /\ pr_calls p = 3%nat /\ pr_attempts p = 5%nat.
Proof. vm_compute. repeat split. Qed.
(* retrieval: the first round fails at its second exchange, the second round succeeds *)
Example retrieval_second_round :
  let ok := ([(1, Final)], [100]) in
  let lost := ([(5000, Final)], [100]) in
  let r := retrieval 0 2000 200 [[ok; lost; ok]; [ok; ok; ok]] [500; 750] in
  cr_end r = 704 /\ cr_ok r = true /\ cr_attempts r = 2%nat.
Proof. vm_compute. repeat split. Qed.

(* ---------- 4. no false failure: the call does complete when the deadline allows ---------- *)
(* time used by the attempts before the deciding one: each takes min(d, T), then its back-off sleep *)
Fixpoint spent (T : N) (pre : list attempt_k) (sl : list N) : N :=
  match pre, sl with
  | (d, _) :: pre', s :: sl' => N.min d T + s + spent T pre' sl'
  | _, _ => 0
  end.

(* if the (n+1)-th attempt is the first to meet a final reply inside the per-attempt timeout, the back-off policy has not
   given up before it, and the deadline lies beyond the time the earlier attempts and sleeps take plus that reply's delay,
   then the call succeeds, with exactly n+1 transmissions, at exactly that time.  Inside a session the earlier replies must
   have arrived (a missing reply is terminal there: C13_session_loss_is_terminal). *)
Theorem retry_k_completes : forall sess pre sl d post srest t D T,
  length sl = length pre ->
  Forall (fun a : attempt_k => is_final (snd a) && (fst a <=? T) = false) pre ->
  (sess = true -> Forall (fun a : attempt_k => fst a <= T) pre) ->
  d <= T -> t + spent T pre sl + d < D ->
  let r := retry_k sess t D T (pre ++ (d, Final) :: post) (sl ++ srest) in
  cr_ok r = true /\ cr_attempts r = S (length pre) /\ cr_end r = t + spent T pre sl + d.
Proof.
  intros sess. induction pre as [|[d0 k0] pre IH]; intros sl d post srest t D T Hlen Hpre Hsess Hd HD.
  - destruct sl; [|discriminate]. cbn [spent] in HD. cbn [app retry_k is_final andb spent length].
    destruct (N.leb_spec d (N.min T (D - t))); [|lia]. cbn [cr_ok cr_attempts cr_end].
    repeat split. lia.
  - destruct sl as [|s sl]; [discriminate|]. cbn [length] in Hlen. injection Hlen as Hlen.
    inversion Hpre as [|? ? Hp0 Hp]; subst. cbn [fst snd] in Hp0.
    cbn [spent] in HD |- *. cbn [app retry_k length].
    set (window := N.min T (D - t)).
    assert (Hmin : N.min d0 window = N.min d0 T) by (subst window; lia).
    assert (E1 : is_final k0 && (d0 <=? window) = false).
    { destruct (is_final k0); [|reflexivity]. cbn [andb] in Hp0 |- *.
      apply N.leb_gt in Hp0. apply N.leb_gt. subst window. lia. }
    rewrite E1.
    assert (E2 : sess && negb (d0 <=? window) = false).
    { destruct sess; [|reflexivity]. cbn [andb]. specialize (Hsess eq_refl). inversion Hsess as [|? ? H0 _]; subst.
      cbn [fst] in H0. apply negb_false_iff. apply N.leb_le. subst window. lia. }
    rewrite E2. rewrite Hmin.
    destruct (N.leb_spec D (t + N.min d0 T)); [lia|].
    destruct (N.leb_spec D (t + N.min d0 T + s)); [lia|].
    assert (Hsess' : sess = true -> Forall (fun a : attempt_k => fst a <= T) pre).
    { intros E. specialize (Hsess E). inversion Hsess; assumption. }
    destruct (IH sl d post srest (t + N.min d0 T + s) D T Hlen Hp Hsess' Hd ltac:(lia)) as [Hok [Hatt Hend]].
    cbn [cr_ok cr_attempts cr_end]. rewrite Hok, Hatt, Hend. repeat split. lia.
Qed.

(* two lost replies, then an answer after 1 ms: success at the third transmission *)
Example completes_after_two_losses :
  let r := retry_k false 0 880 200 ([(5000, Final); (5000, Final)] ++ (1, Final) :: []) ([100; 100] ++ [100]) in
  cr_ok r = true /\ cr_attempts r = 3%nat /\ cr_end r = 0 + spent 200 [(5000, Final); (5000, Final)] [100; 100] + 1.
Proof. vm_compute. repeat split. Qed.

(* the fault-free procedure: every exchange answered at its first attempt within the timeout, the answers' delays fit
   before the deadline - the procedure succeeds with one transmission per exchange, at the sum of the delays *)
Fixpoint total_delay (ds : list N) : N := match ds with [] => 0 | d :: r => d + total_delay r end.

Theorem run_calls_fault_free : forall sess ds t D T (tails : list (list attempt_k * list N)),
  length tails = length ds ->
  Forall (fun d => d <= T) ds -> t + total_delay ds < D ->
  let calls := map (fun x : N * (list attempt_k * list N) => ((fst x, Final) :: fst (snd x), snd (snd x))) (combine ds tails) in
  let p := run_calls sess t D T calls in
  pr_ok p = true /\ pr_calls p = length ds /\ pr_attempts p = length ds /\ pr_end p = t + total_delay ds.
Proof.
  intros sess. induction ds as [|d ds IH]; intros t D T tails Hlen Hall HD.
  - cbn. repeat split. lia.
  - destruct tails as [|[post srest] tails]; [discriminate|]. cbn [length] in Hlen. injection Hlen as Hlen.
    inversion Hall as [|? ? Hd Hrest]; subst. cbn [total_delay] in HD.
    cbn [combine map fst snd run_calls].
    destruct (retry_k_completes sess [] [] d post srest t D T eq_refl (Forall_nil _) (fun _ => Forall_nil _) Hd
                ltac:(cbn [spent]; lia)) as [Hok [Hatt Hend]].
    cbn [app spent length] in Hok, Hatt, Hend. rewrite Hok, Hatt, Hend.
    destruct (IH (t + 0 + d) D T tails Hlen Hrest ltac:(lia)) as [Pok [Pcalls [Patt Pend]]].
    cbn [pr_ok pr_calls pr_attempts pr_end length total_delay]. rewrite Pok, Pcalls, Patt, Pend. repeat split; lia.
Qed.
