(* SpecRequests.v — the specification side of everything the library sends:
   an independent parser of datagrams (RMCP header, RMCP+ session wrapper,
   IPMI LAN message, request bodies, session-setup payloads) written from the
   specification tables with pattern matching and positional arithmetic, plus
   the command table of IPMI v2.0 Appendix G / DCMI 1.5 §6. *)
From BMC Require Import Base Prim Layers Layers2 Serialize.

Module SpecParse.

(* ---- request bodies ---- *)
Inductive kind := KNone | KAuthCaps | KCipherSuites | KSessionInfo | KSetPriv | KCloseSession | KChassisControl
                | KGetSDR | KSensorReading | KDCMICaps | KPowerReading | KDCMISensorInfo | KRaw.

Definition kind_of (r : request) : kind :=
  match r with
  | RqNone => KNone | RqAuthCaps _ _ _ => KAuthCaps | RqCipherSuites _ _ _ => KCipherSuites
  | RqSessionInfo _ _ _ => KSessionInfo | RqSetPriv _ => KSetPriv | RqCloseSession _ _ => KCloseSession
  | RqChassisControl _ => KChassisControl | RqGetSDR _ _ _ _ => KGetSDR | RqSensorReading _ => KSensorReading
  | RqDCMICaps _ => KDCMICaps | RqPowerReading _ _ => KPowerReading | RqDCMISensorInfo _ _ _ _ => KDCMISensorInfo
  | RqRaw _ => KRaw
  end.

(* field widths of the specification: a value outside its width is not a request the
   specification can express (DESIGN.md observation O4) *)
Definition wf_request (r : request) : bool :=
  match r with
  | RqNone => true
  | RqAuthCaps _ ch mp => (ch <? 16) && (mp <? 16)
  | RqCipherSuites ch pt idx => (ch <? 16) && (pt <? 64) && (idx <? 64)
  | RqSessionInfo idx h id => (idx <? 256) && (if idx =? 0xfe then (h <? 256) && (id =? 0)
                                               else if idx =? 0xff then (h =? 0) && (id <? 2 ^ 32)
                                               else (h =? 0) && (id =? 0))
  | RqSetPriv l => (l <? 16) && negb (l =? 1)
  | RqCloseSession id h => (id <? 2 ^ 32) && (if id =? 0 then h <? 256 else h =? 0)
  | RqChassisControl c => c <? 16
  | RqGetSDR rs rc off len => (rs <? 65536) && (rc <? 65536) && (off <? 256) && (len <? 256)
  | RqSensorReading n => n <? 256
  | RqDCMICaps p => p <? 256
  | RqPowerReading mode per => (mode <? 256) && (if mode =? 2 then Spec.rolling_duration (Spec.rolling_byte per) =? per else per =? 0)
  | RqDCMISensorInfo t e i st => (t <? 256) && (e <? 256) && (i <? 256) && (if i =? 0 then st <? 256 else st =? 0)
  | RqRaw b => all_bytes b
  end.

Definition request_body (k : kind) (bs : bytes) : option request :=
  match k, bs with
  | KNone, [] => Some RqNone
  | KAuthCaps, [b0; b1] =>                                  (* 22.13: [7] v2.0+ data, [3:0] channel; [3:0] privilege *)
      if (b0 / 16) mod 8 =? 0 then if b1 / 16 =? 0 then Some (RqAuthCaps (128 <=? b0) (b0 mod 16) (b1 mod 16)) else None else None
  | KCipherSuites, [b0; b1; b2] =>                          (* 22.15: channel, payload type, [7] list algorithms [5:0] index *)
      if (b0 <? 16) && (b1 <? 64) && (128 <=? b2) && (b2 <? 192) then Some (RqCipherSuites b0 b1 (b2 - 128)) else None
  | KSessionInfo, [i] => if (i =? 0xfe) || (i =? 0xff) then None else Some (RqSessionInfo i 0 0)
  | KSessionInfo, [i; h] => if i =? 0xfe then Some (RqSessionInfo i h 0) else None
  | KSessionInfo, [i; a; b; c; d] => if i =? 0xff then Some (RqSessionInfo i 0 (le32 a b c d)) else None
  | KSetPriv, [l] => if (l <? 16) && negb (l =? 1) then Some (RqSetPriv l) else None
  | KCloseSession, [a; b; c; d] => if le32 a b c d =? 0 then None else Some (RqCloseSession (le32 a b c d) 0)
  | KCloseSession, [a; b; c; d; h] => if le32 a b c d =? 0 then Some (RqCloseSession 0 h) else None
  | KChassisControl, [c] => if c <? 16 then Some (RqChassisControl c) else None
  | KGetSDR, [r0; r1; i0; i1; off; len] => Some (RqGetSDR (le16 r0 r1) (le16 i0 i1) off len)
  | KSensorReading, [n] => Some (RqSensorReading n)
  | KDCMICaps, [p] => Some (RqDCMICaps p)
  | KPowerReading, [mode; per; rsv] =>
      if rsv =? 0 then
        if mode =? 2 then Some (RqPowerReading mode (Spec.rolling_duration per))
        else if per =? 0 then Some (RqPowerReading mode 0) else None
      else None
  | KDCMISensorInfo, [t; e; i; st] =>
      if (negb (i =? 0)) && negb (st =? 0) then None else Some (RqDCMISensorInfo t e i st)
  | KRaw, b => Some (RqRaw b)
  | _, _ => None
  end.

(* ---- command table (IPMI v2.0 Appendix G; DCMI 1.5 table 6-1): request NetFn, command, group body code ---- *)
Inductive command :=
| CGetChassisStatus | CChassisControl | CGetDeviceID | CGetSystemGUID | CGetChannelAuthCaps | CSetSessionPriv
| CCloseSession | CGetSDRRepoInfo | CReserveSDRRepo | CGetSDR | CGetSensorReading | CGetSessionInfo
| CGetChannelCipherSuites | CDCMICaps | CDCMIPowerReading | CDCMISensorInfo.
Definition command_code (c : command) : N * N * option N :=
  match c with
  | CGetChassisStatus => (0x00, 0x01, None) | CChassisControl => (0x00, 0x02, None)
  | CGetDeviceID => (0x06, 0x01, None) | CGetSystemGUID => (0x06, 0x37, None)
  | CGetChannelAuthCaps => (0x06, 0x38, None) | CSetSessionPriv => (0x06, 0x3b, None)
  | CCloseSession => (0x06, 0x3c, None) | CGetSessionInfo => (0x06, 0x3d, None)
  | CGetChannelCipherSuites => (0x06, 0x54, None)
  | CGetSDRRepoInfo => (0x0a, 0x20, None) | CReserveSDRRepo => (0x0a, 0x22, None) | CGetSDR => (0x0a, 0x23, None)
  | CGetSensorReading => (0x04, 0x2d, None)
  | CDCMICaps => (0x2c, 0x01, Some 0xdc) | CDCMIPowerReading => (0x2c, 0x02, Some 0xdc)
  | CDCMISensorInfo => (0x2c, 0x07, Some 0xdc)
  end.
Definition command_kind (c : command) : kind :=
  match c with
  | CGetChassisStatus | CGetDeviceID | CGetSystemGUID | CGetSDRRepoInfo | CReserveSDRRepo => KNone
  | CChassisControl => KChassisControl | CGetChannelAuthCaps => KAuthCaps | CSetSessionPriv => KSetPriv
  | CCloseSession => KCloseSession | CGetSDR => KGetSDR | CGetSensorReading => KSensorReading
  | CGetSessionInfo => KSessionInfo | CGetChannelCipherSuites => KCipherSuites | CDCMICaps => KDCMICaps
  | CDCMIPowerReading => KPowerReading | CDCMISensorInfo => KDCMISensorInfo
  end.

(* ---- IPMI LAN request message (13.8) ---- *)
Record lanreq := { lr_rsaddr : N; lr_netfn : N; lr_rslun : N; lr_rqaddr : N; lr_rqseq : N; lr_rqlun : N;
                   lr_cmd : N; lr_body : option N; lr_data : bytes }.
Definition chk_ok (bs : bytes) (c : N) : bool := (sum_bytes bs + c) mod 256 =? 0.
Definition lan_request (bs : bytes) : option lanreq :=
  match bs with
  | rs :: nf :: c1 :: rq :: sq :: cmd :: rest =>
      match rev rest with
      | c2 :: rdata =>
          let data := rev rdata in
          if chk_ok [rs; nf] c1 && chk_ok (rq :: sq :: cmd :: data) c2 && ((nf / 4) mod 2 =? 0) then
            if nf / 4 =? 0x2c then
              match data with
              | body :: d => Some {| lr_rsaddr := rs; lr_netfn := nf / 4; lr_rslun := nf mod 4; lr_rqaddr := rq;
                                     lr_rqseq := sq / 4; lr_rqlun := sq mod 4; lr_cmd := cmd; lr_body := Some body; lr_data := d |}
              | [] => None
              end
            else Some {| lr_rsaddr := rs; lr_netfn := nf / 4; lr_rslun := nf mod 4; lr_rqaddr := rq;
                         lr_rqseq := sq / 4; lr_rqlun := sq mod 4; lr_cmd := cmd; lr_body := None; lr_data := data |}
          else None
      | [] => None
      end
  | _ => None
  end.

(* ---- RMCP + RMCP+ session wrapper (ASF 2.0 3.2.2.2; IPMI 13.6) ---- *)
Record wrapper := { w_ptype : N; w_encrypted : bool; w_authenticated : bool; w_id : N; w_seq : N;
                    w_payload : bytes; w_trailer : bytes (* integrity pad, pad length, next header, AuthCode *) }.
Definition datagram (bs : bytes) : option wrapper :=
  match bs with
  | 6 :: 0 :: 0xff :: 7 ::                                     (* RMCP: version 6, reserved, no-ACK sequence, class IPMI *)
    6 :: pt ::                                                 (* auth type RMCP+; payload type byte *)
    i0 :: i1 :: i2 :: i3 :: s0 :: s1 :: s2 :: s3 :: l0 :: l1 :: rest =>
      if (pt mod 64 =? 2) then None else                        (* the library never sends OEM payloads *)
      let len := N.to_nat (le16 l0 l1) in
      if Nat.ltb (length rest) len then None else
      let authd := (pt / 64) mod 2 =? 1 in
      if negb authd && negb (Nat.eqb (length rest) len) then None else
      Some {| w_ptype := pt mod 64; w_encrypted := 128 <=? pt; w_authenticated := authd;
              w_id := le32 i0 i1 i2 i3; w_seq := le32 s0 s1 s2 s3;
              w_payload := firstn len rest; w_trailer := skipn len rest |}
  | _ => None
  end.

(* ---- session-setup payloads (13.17, 13.20, 13.22) ---- *)
Definition alg_payload (tag : N) (bs : bytes) : option N :=
  match bs with
  | [t; 0; 0; 8; a; 0; 0; 0] => if (t =? tag) && (a <? 64) then Some a else None
  | _ => None
  end.
Definition open_session_request (bs : bytes) : option opensessionreq :=
  match bs with
  | tag :: mp :: 0 :: 0 :: a :: b :: c :: d :: rest =>
      if (mp <? 16) && Nat.eqb (length rest) 24 then
        match alg_payload 0 (firstn 8 rest), alg_payload 1 (firstn 8 (skipn 8 rest)), alg_payload 2 (skipn 16 rest) with
        | Some x, Some y, Some z =>
            Some {| oq_tag := tag; oq_maxpriv := mp; oq_id := le32 a b c d;
                    oq_auth := {| ap_wildcard := false; ap_alg := x |};
                    oq_integ := {| ap_wildcard := false; ap_alg := y |};
                    oq_conf := {| ap_wildcard := false; ap_alg := z |} |}
        | _, _, _ => None
        end
      else None
  | _ => None
  end.
Definition rakp_message_1 (bs : bytes) : option rakp1 :=
  match bs with
  | tag :: 0 :: 0 :: 0 :: a :: b :: c :: d :: rest =>
      let rnd := firstn 16 rest in
      match skipn 16 rest with
      | role :: 0 :: 0 :: ul :: name =>
          if (role <? 32) && (ul <=? 16) && Nat.eqb (length name) (N.to_nat ul) && Nat.eqb (length rnd) 16 then
            Some {| r1_tag := tag; r1_bmc_id := le32 a b c d; r1_random := rnd; r1_lookup := role / 16 =? 0;
                    r1_maxpriv := role mod 16; r1_username := name |}
          else None
      | _ => None
      end
  | _ => None
  end.
Definition rakp_message_3 (bs : bytes) : option rakp3 :=
  match bs with
  | tag :: st :: 0 :: 0 :: a :: b :: c :: d :: code =>
      if (st =? 0) || Nat.eqb (length code) 0 then
        Some {| r3_tag := tag; r3_status := st; r3_bmc_id := le32 a b c d; r3_authcode := code |}
      else None
  | _ => None
  end.

End SpecParse.
