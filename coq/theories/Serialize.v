(* Serialize.v — every SerializeTo of gebn/bmc as a function on the gopacket
   serialize buffer.  gopacket.SerializeLayers serialises the layers innermost
   first; each SerializeTo prepends (and possibly appends) to the bytes already
   in the buffer.  [ser_X v buf] is the buffer after X.SerializeTo with
   FixLengths and ComputeChecksums on (the library's serializeOptions);
   Go's truncating conversions are written out. *)
From BMC Require Import Base Prim Layers Layers2.

Definition u32 (x : N) : N := x mod 4294967296.

(* layers.RMCP *)
Definition ser_rmcp (v : rmcp) (buf : bytes) : res bytes :=
  Ok ([u8 (rm_version v); 0; u8 (rm_sequence v); N.lor (u8 (N.shiftl (b2n (rm_ack v)) 7)) (u8 (rm_class v))] ++ buf).

(* ipmi.V1Session *)
Definition ser_v1session (v : v1session) (buf : bytes) : res (v1session * bytes) :=
  let len := u8 (N.of_nat (length buf)) in
  let v' := {| v1_authtype := v1_authtype v; v1_sequence := v1_sequence v; v1_id := v1_id v;
               v1_authcode := v1_authcode v; v1_length := len; v1_payload := v1_payload v |} in
  let hdr := [u8 (v1_authtype v)] ++ put_le32 (v1_sequence v) ++ put_le32 (v1_id v) in
  if u8 (v1_authtype v) =? 0 then Ok (v', hdr ++ [len] ++ buf)
  else Ok (v', hdr ++ copy_into (zeros 16) (v1_authcode v) ++ [len] ++ buf).

(* ipmi.V2Session *)
Definition v2_flags (v : v2session) : N :=
  N.lor (N.lor (u8 (v2_ptype v)) (if v2_encrypted v then 128 else 0)) (if v2_authenticated v then 64 else 0).
Definition ser_v2session (sign : bytes -> bytes) (v : v2session) (buf : bytes) : res (v2session * bytes) :=
  let oem := u8 (v2_ptype v) =? 2 in
  let hl := if oem then 18%nat else 12%nat in
  let len := u16 (N.of_nat (length buf)) in
  let pad := if v2_authenticated v
             then N.of_nat (Nat.modulo (4 - Nat.modulo (hl + N.to_nat len + 2) 4) 4) else v2_pad v in
  let hdr := [6; v2_flags v]
             ++ (if oem then put_le32 (v2_enterprise v) ++ put_le16 (v2_pid v) else [])
             ++ put_le32 (v2_id v) ++ put_le32 (v2_sequence v) ++ put_le16 len in
  if v2_authenticated v then
    let body := hdr ++ buf ++ repeat 0xff (N.to_nat pad) ++ [pad; 7] in
    let sg := sign body in
    Ok ({| v2_ptype := v2_ptype v; v2_enterprise := v2_enterprise v; v2_pid := v2_pid v;
           v2_encrypted := v2_encrypted v; v2_authenticated := true; v2_id := v2_id v;
           v2_sequence := v2_sequence v; v2_length := len; v2_pad := pad; v2_signature := sg;
           v2_payload := v2_payload v |}, body ++ sg)
  else
    Ok ({| v2_ptype := v2_ptype v; v2_enterprise := v2_enterprise v; v2_pid := v2_pid v;
           v2_encrypted := v2_encrypted v; v2_authenticated := false; v2_id := v2_id v;
           v2_sequence := v2_sequence v; v2_length := len; v2_pad := pad; v2_signature := v2_signature v;
           v2_payload := v2_payload v |}, hdr ++ buf).

(* ipmi.AES128CBC; [iv] is what crypto/rand delivers *)
Definition aes_trailer (n : nat) : bytes :=
  let padlen := (15 - Nat.modulo n 16)%nat in
  map (fun i => u8 (N.of_nat (i + 1))) (seq 0 padlen) ++ [u8 (N.of_nat padlen)].
Definition ser_aescbc (enc : bytes -> bytes) (iv : bytes) (buf : bytes) : res bytes :=
  let pt := buf ++ aes_trailer (length buf) in
  Ok (iv ++ cbc_encrypt enc iv pt).

(* ipmi.Message *)
Definition msg_is_req (fn : N) : bool := (u8 fn) mod 2 =? 0.
Definition ser_message (v : message) (buf : bytes) : res (message * bytes) :=
  let fn := m_function v in
  let h01 := [u8 (m_remote_addr v); N.lor (u8 (N.shiftl (u8 fn) 2)) (u8 (m_remote_lun v))] in
  let c1 := Impl.checksum h01 in
  let h35 := [u8 (m_local_addr v); N.lor (u8 (N.shiftl (u8 (m_sequence v)) 2)) (u8 (m_local_lun v)); u8 (m_command v)] in
  let cc := if msg_is_req fn then [] else [u8 (m_code v)] in
  let ext := if (fn =? 0x2c) || (fn =? 0x2d) then [u8 (m_body v)]
             else if (fn =? 0x2e) || (fn =? 0x2f)
                  then [u8 (m_enterprise v); u8 (N.shiftr (u32 (m_enterprise v)) 8); u8 (N.shiftr (u32 (m_enterprise v)) 16)]
                  else [] in
  let tail := h35 ++ cc ++ ext ++ buf in
  let c2 := Impl.checksum tail in
  Ok ({| m_function := m_function v; m_body := m_body v; m_enterprise := m_enterprise v; m_command := m_command v;
         m_remote_addr := m_remote_addr v; m_remote_lun := m_remote_lun v; m_checksum1 := c1;
         m_local_addr := m_local_addr v; m_local_lun := m_local_lun v; m_sequence := m_sequence v;
         m_code := m_code v; m_checksum2 := c2; m_payload := m_payload v |},
      h01 ++ [c1] ++ tail ++ [c2]).

(* ---------- RMCP+ session setup requests ---------- *)
Definition ser_algpayload (tag : N) (a : algpayload) : bytes :=
  [tag; 0; 0; if ap_wildcard a then 0 else 8; if ap_wildcard a then 0 else u8 (ap_alg a); 0; 0; 0].
Record opensessionreq := { oq_tag : N; oq_maxpriv : N; oq_id : N; oq_auth : algpayload; oq_integ : algpayload; oq_conf : algpayload }.
Definition ser_opensessionreq (v : opensessionreq) (buf : bytes) : res bytes :=
  Ok ([u8 (oq_tag v); N.land (u8 (oq_maxpriv v)) 0x0f; 0; 0] ++ put_le32 (oq_id v) ++ buf
      ++ ser_algpayload 0 (oq_auth v) ++ ser_algpayload 1 (oq_integ v) ++ ser_algpayload 2 (oq_conf v)).

Definition role_byte (maxpriv : N) (lookup : bool) : N :=
  N.lor (N.land (u8 maxpriv) 0xf) (if lookup then 0 else 16).
Definition ser_rakp1 (v : rakp1) (buf : bytes) : res bytes :=
  if Nat.ltb 16 (length (r1_username v)) then Err else
  Ok ([u8 (r1_tag v); 0; 0; 0] ++ put_le32 (r1_bmc_id v) ++ copy_into (zeros 16) (r1_random v)
      ++ [role_byte (r1_maxpriv v) (r1_lookup v); 0; 0; u8 (N.of_nat (length (r1_username v)))]
      ++ r1_username v ++ buf).

Record rakp3 := { r3_tag : N; r3_status : N; r3_bmc_id : N; r3_authcode : bytes }.
Definition ser_rakp3 (v : rakp3) (buf : bytes) : res bytes :=
  Ok ([u8 (r3_tag v); u8 (r3_status v); 0; 0] ++ put_le32 (r3_bmc_id v)
      ++ (if u8 (r3_status v) =? 0 then r3_authcode v else []) ++ buf).

(* ---------- command request bodies ---------- *)
Inductive request :=
| RqNone                                               (* commands without a request body *)
| RqAuthCaps (extended : bool) (channel maxpriv : N)
| RqCipherSuites (channel ptype index : N)
| RqSessionInfo (index handle id : N)
| RqSetPriv (level : N)
| RqCloseSession (id handle : N)
| RqChassisControl (c : N)
| RqGetSDR (reservation record offset len : N)
| RqSensorReading (number : N)
| RqDCMICaps (param : N)
| RqPowerReading (mode : N) (period_s : N)
| RqDCMISensorInfo (stype entity instance start : N)
| RqRaw (body : bytes).                                (* harness-only: a caller-defined command with an arbitrary body *)

Definition ser_request (r : request) (buf : bytes) : res bytes :=
  match r with
  | RqNone => Ok buf
  | RqAuthCaps ext ch mp => Ok ([N.lor (u8 ch) (if ext then 128 else 0); u8 mp] ++ buf)
  | RqCipherSuites ch pt idx => Ok ([N.land (u8 ch) 0x0f; N.land (u8 pt) 0x3f; N.lor 128 (N.land (u8 idx) 0x3f)] ++ buf)
  | RqSessionInfo idx h id =>
      Ok ([u8 idx] ++ (if u8 idx =? 0xfe then [u8 h] else if u8 idx =? 0xff then put_le32 (u32 id) else []) ++ buf)
  | RqSetPriv l => if u8 l =? 1 then Err else Ok ([N.land (u8 l) 0xf] ++ buf)
  | RqCloseSession id h => Ok (put_le32 (u32 id) ++ (if u32 id =? 0 then [u8 h] else []) ++ buf)
  | RqChassisControl c => Ok ([u8 c] ++ buf)
  | RqGetSDR rs rc off len => Ok (put_le16 (u16 rs) ++ put_le16 (u16 rc) ++ [u8 off; u8 len] ++ buf)
  | RqSensorReading n => Ok ([u8 n] ++ buf)
  | RqDCMICaps p => Ok ([u8 p] ++ buf)
  | RqPowerReading mode per => Ok ([u8 mode; if u8 mode =? 2 then Impl.rolling_byte per else 0; 0] ++ buf)
  | RqDCMISensorInfo t e i st => Ok ([u8 t; u8 e; u8 i; if u8 i =? 0 then u8 st else 0] ++ buf)
  | RqRaw b => Ok (b ++ buf)
  end.
