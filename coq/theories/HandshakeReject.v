(* HandshakeReject.v — C02, the rejection side, exact error included: what newV2Session answers when a handshake
   reply is wrong.  [exchange] hypotheses say which payload the exchange delivered (after any retransmissions). *)
From BMC Require Import Base Prim Layers Layers2 Serialize Packet Conn Hmac Handshake HandshakeProofs.

Lemma bytes_eqb_false a b : a <> b -> bytes_eqb a b = false.
Proof. unfold bytes_eqb. destruct (list_eq_dec N.eq_dec a b); [contradiction|reflexivity]. Qed.

Section Reject.
Variables (o : session_opts) (s : suite) (random : bytes) (sc1 sc2 sc3 : list (option bytes)).

(* ---- exchange 1: Open Session Response ---- *)
Variables (sent1 : list bytes) (p1 : bytes).
Hypothesis X1 : exchange 0x10 (ser_opensessionreq (open_request o s) []) sc1 1 = (sent1, inl p1).

Theorem osr_undecodable : decode_opensessionrsp opensessionrsp_zero p1 = Err ->
  new_session o s random sc1 sc2 sc3 = (sent1, inr (EDecode 1)).
Proof. intros D. unfold new_session. rewrite X1, D. reflexivity. Qed.

Variable rsp : opensessionrsp.
Hypothesis D1 : decode_opensessionrsp opensessionrsp_zero p1 = Ok rsp.

Theorem osr_bad_tag : os_tag rsp <> 0 -> new_session o s random sc1 sc2 sc3 = (sent1, inr (ETag 1)).
Proof. intros T. unfold new_session. rewrite X1, D1. apply N.eqb_neq in T. rewrite T. reflexivity. Qed.

Hypothesis T1 : os_tag rsp = 0.
Theorem osr_bad_status : os_status rsp <> 0 -> new_session o s random sc1 sc2 sc3 = (sent1, inr (EStatus 1)).
Proof.
  intros S. unfold new_session. rewrite X1, D1, T1. apply N.eqb_neq in S. rewrite S. reflexivity.
Qed.

Hypothesis S1 : os_status rsp = 0.
Hypothesis A1 : suite_eqb {| su_auth := ap_alg (os_auth rsp); su_integ := ap_alg (os_integ rsp); su_conf := ap_alg (os_conf rsp) |} s = true.

(* ---- exchange 2: RAKP Message 2 ---- *)
Variables (sent2 : list bytes) (p2 : bytes).
Hypothesis X2 : exchange 0x12 (ser_rakp1 (rakp1_request o rsp random) []) sc2 2 = (sent2, inl p2).

Ltac through1 := unfold new_session; rewrite X1, D1, T1, S1, A1; cbn [N.eqb negb]; rewrite X2.

Theorem rakp2_undecodable : decode_rakp2 rakp2_zero p2 = Err ->
  new_session o s random sc1 sc2 sc3 = (sent1 ++ sent2, inr (EDecode 2)).
Proof. intros D. through1. rewrite D. reflexivity. Qed.

Variable m2 : rakp2.
Hypothesis D2 : decode_rakp2 rakp2_zero p2 = Ok m2.

Theorem rakp2_bad_tag : r2_tag m2 <> 0 -> new_session o s random sc1 sc2 sc3 = (sent1 ++ sent2, inr (ETag 2)).
Proof. intros T. through1. rewrite D2. apply N.eqb_neq in T. rewrite T. reflexivity. Qed.

Hypothesis T2 : r2_tag m2 = 0.
Theorem rakp2_bad_status : r2_status m2 <> 0 -> new_session o s random sc1 sc2 sc3 = (sent1 ++ sent2, inr (EStatus 2)).
Proof. intros S. through1. rewrite D2, T2. apply N.eqb_neq in S. rewrite S. reflexivity. Qed.

Hypothesis S2 : r2_status m2 = 0.
Variables (h : N) (icvlen : nat).
Hypothesis AP : auth_params (ap_alg (os_auth rsp)) = Some (h, icvlen).

(* a RAKP 2 code that is not the keyed hash of the exchanged values: exactly the incorrect-password error, and
   nothing further is transmitted (no RAKP 3) *)
Theorem rakp2_wrong_code :
  r2_authcode m2 <> hmac_alg h (so_password o) (rakp2_authcode_input (rakp1_request o rsp random) m2) ->
  new_session o s random sc1 sc2 sc3 = (sent1 ++ sent2, inr EIncorrectPassword).
Proof.
  intros C. through1. rewrite D2, T2, S2, AP. cbn [N.eqb negb]. rewrite (bytes_eqb_false _ _ C). reflexivity.
Qed.

Hypothesis C2 : r2_authcode m2 = hmac_alg h (so_password o) (rakp2_authcode_input (rakp1_request o rsp random) m2).

(* ---- exchange 3: RAKP Message 4 ---- *)
Let m3 := {| r3_tag := 0; r3_status := 0; r3_bmc_id := os_bmc_id rsp;
             r3_authcode := hmac_alg h (so_password o) (rakp3_authcode_input (rakp1_request o rsp random) m2) |}.
Variables (sent3 : list bytes) (p3 : bytes).
Hypothesis X3 : exchange 0x14 (ser_rakp3 m3 []) sc3 3 = (sent3, inl p3).

Lemma code_ok : bytes_eqb (r2_authcode m2) (hmac_alg h (so_password o) (rakp2_authcode_input (rakp1_request o rsp random) m2)) = true.
Proof. rewrite <- C2. unfold bytes_eqb. destruct (list_eq_dec N.eq_dec _ _); [reflexivity|contradiction]. Qed.

Ltac through2 := through1; rewrite D2, T2, S2, AP; cbn [N.eqb negb]; rewrite code_ok; cbn [negb]; fold m3; rewrite X3.

Theorem rakp4_undecodable : decode_rakp4 rakp4_zero p3 = Err ->
  new_session o s random sc1 sc2 sc3 = (sent1 ++ sent2 ++ sent3, inr (EDecode 3)).
Proof. intros D. through2. rewrite D. reflexivity. Qed.

Variable m4 : rakp4.
Hypothesis D4 : decode_rakp4 rakp4_zero p3 = Ok m4.

Theorem rakp4_bad_tag : r4_tag m4 <> 0 -> new_session o s random sc1 sc2 sc3 = (sent1 ++ sent2 ++ sent3, inr (ETag 3)).
Proof. intros T. through2. rewrite D4. apply N.eqb_neq in T. rewrite T. reflexivity. Qed.

Hypothesis T4 : r4_tag m4 = 0.
Theorem rakp4_bad_status : r4_status m4 <> 0 -> new_session o s random sc1 sc2 sc3 = (sent1 ++ sent2 ++ sent3, inr (EStatus 3)).
Proof. intros S. through2. rewrite D4, T4. apply N.eqb_neq in S. rewrite S. reflexivity. Qed.

Hypothesis S4 : r4_status m4 = 0.
(* an ICV that is not the (truncated) keyed hash under the SIK: an error, no session *)
Theorem rakp4_wrong_icv :
  let sik := hmac_alg h (if Nat.eqb (length (so_kg o)) 0 then so_password o else so_kg o) (sik_input (rakp1_request o rsp random) m2) in
  r4_icv m4 <> icv_of h icvlen sik (rakp1_request o rsp random) m2 ->
  new_session o s random sc1 sc2 sc3 = (sent1 ++ sent2 ++ sent3, inr EICV).
Proof.
  cbv zeta. intros C. through2. rewrite D4, T4, S4. cbn [N.eqb negb].
  unfold icv_of in C. rewrite (bytes_eqb_false _ _ C). reflexivity.
Qed.
End Reject.
