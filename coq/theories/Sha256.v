(* Executable model of SHA-256 (FIPS 180-4).
   Bytes and 32-bit words are [N]; byte strings are [list N]. *)

From Coq Require Import List NArith Lia.
Import ListNotations.
From BMC Require Import Word.
Local Open Scope N_scope.

Definition sha256_K : list N :=
  [
   0x428a2f98; 0x71374491; 0xb5c0fbcf; 0xe9b5dba5;
   0x3956c25b; 0x59f111f1; 0x923f82a4; 0xab1c5ed5;
   0xd807aa98; 0x12835b01; 0x243185be; 0x550c7dc3;
   0x72be5d74; 0x80deb1fe; 0x9bdc06a7; 0xc19bf174;
   0xe49b69c1; 0xefbe4786; 0x0fc19dc6; 0x240ca1cc;
   0x2de92c6f; 0x4a7484aa; 0x5cb0a9dc; 0x76f988da;
   0x983e5152; 0xa831c66d; 0xb00327c8; 0xbf597fc7;
   0xc6e00bf3; 0xd5a79147; 0x06ca6351; 0x14292967;
   0x27b70a85; 0x2e1b2138; 0x4d2c6dfc; 0x53380d13;
   0x650a7354; 0x766a0abb; 0x81c2c92e; 0x92722c85;
   0xa2bfe8a1; 0xa81a664b; 0xc24b8b70; 0xc76c51a3;
   0xd192e819; 0xd6990624; 0xf40e3585; 0x106aa070;
   0x19a4c116; 0x1e376c08; 0x2748774c; 0x34b0bcb5;
   0x391c0cb3; 0x4ed8aa4a; 0x5b9cca4f; 0x682e6ff3;
   0x748f82ee; 0x78a5636f; 0x84c87814; 0x8cc70208;
   0x90befffa; 0xa4506ceb; 0xbef9a3f7; 0xc67178f2
  ].

(* a, b, c, d, e, f, g, h *)
Definition sha256_state : Type := (N * N * N * N * N * N * N * N)%type.

Definition sha256_H0 : sha256_state :=
  (0x6a09e667, 0xbb67ae85, 0x3c6ef372, 0xa54ff53a,
   0x510e527f, 0x9b05688c, 0x1f83d9ab, 0x5be0cd19).

Definition sha256_ch (x y z : N) : N := N.lxor (N.land x y) (N.land (not32 x) z).
Definition sha256_maj (x y z : N) : N :=
  N.lxor (N.lxor (N.land x y) (N.land x z)) (N.land y z).
Definition sha256_bsig0 (x : N) : N :=
  N.lxor (N.lxor (rotr32 x 2) (rotr32 x 13)) (rotr32 x 22).
Definition sha256_bsig1 (x : N) : N :=
  N.lxor (N.lxor (rotr32 x 6) (rotr32 x 11)) (rotr32 x 25).
Definition sha256_ssig0 (x : N) : N :=
  N.lxor (N.lxor (rotr32 x 7) (rotr32 x 18)) (shr32 x 3).
Definition sha256_ssig1 (x : N) : N :=
  N.lxor (N.lxor (rotr32 x 17) (rotr32 x 19)) (shr32 x 10).

(* The message schedule is kept as a sliding 16-word window: at round t the
   window is W[t..t+15] (so its head is W[t]); each sha256_round drops the head and
   appends W[t+16]. *)
Definition sha256_sched_next (w : list N) : N :=
  w32 (sha256_ssig1 (nth 14 w 0) + nth 9 w 0 + sha256_ssig0 (nth 1 w 0) + nth 0 w 0).

Definition sha256_round (sw : sha256_state * list N) (k : N) : sha256_state * list N :=
  let '(a, b, c, d, e, f, g, h, w) := sw in
  let t1 := h + sha256_bsig1 e + sha256_ch e f g + k + hd 0 w in
  let t2 := sha256_bsig0 a + sha256_maj a b c in
  (w32 (t1 + t2), a, b, c, w32 (d + t1), e, f, g, tl w ++ [sha256_sched_next w]).

(* [blk] : 64 bytes *)
Definition sha256_compress (H : sha256_state) (blk : list N) : sha256_state :=
  let '(a, b, c, d, e, f, g, h) := H in
  let '(a', b', c', d', e', f', g', h', _) :=
    fold_left sha256_round sha256_K (H, be_words blk) in
  (add32 a a', add32 b b', add32 c c', add32 d d',
   add32 e e', add32 f f', add32 g g', add32 h h').

Definition sha256_digest_of_state (s : sha256_state) : list N :=
  let '(a, b, c, d, e, f, g, h) := s in
  be_bytes32 a ++ be_bytes32 b ++ be_bytes32 c ++ be_bytes32 d ++
  be_bytes32 e ++ be_bytes32 f ++ be_bytes32 g ++ be_bytes32 h.

Definition sha256 (m : list N) : list N :=
  sha256_digest_of_state
    (fold_left sha256_compress (chunks 64 (md_pad be_bytes64 m)) sha256_H0).

Lemma sha256_digest_of_state_length : forall s, length (sha256_digest_of_state s) = 32%nat.
Proof.
  intros [[[[[[[a b] c] d] e] f] g] h]. reflexivity.
Qed.

Lemma sha256_length : forall m, length (sha256 m) = 32%nat.
Proof.
  intros m. unfold sha256. apply sha256_digest_of_state_length.
Qed.

(* ------------------------------------------------------------------ *)
(* Test vectors                                                        *)
(* ------------------------------------------------------------------ *)

From Coq Require Import String.
Import TestUtil.

Example sha256_empty :
  sha256 [] = bytes_of_hex
    "e3b0c44298fc1c149afbf4c8996fb92427ae41e4649b934ca495991b7852b855".
Proof. vm_compute; reflexivity. Qed.

Example sha256_abc :
  sha256 (bytes_of_string "abc") = bytes_of_hex
    "ba7816bf8f01cfea414140de5dae2223b00361a396177a9cb410ff61f20015ad".
Proof. vm_compute; reflexivity. Qed.

Example sha256_two_blocks :
  sha256 (bytes_of_string
            "abcdbcdecdefdefgefghfghighijhijkijkljklmklmnlmnomnopnopq")
  = bytes_of_hex
    "248d6a61d20638b8e5c026930c3e6039a33ce45964ff2167f6ecedd419db06c1".
Proof. vm_compute; reflexivity. Qed.
