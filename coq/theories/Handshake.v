(* Handshake.v — RMCP+ session establishment as the library performs it
   (v2session_new.go: newV2Session, determineCipherSuite; authenticator.go;
   hasher.go; confidentiality.go), over scripts of received datagrams. *)
From BMC Require Import Base Prim Layers Layers2 Serialize Packet Conn Hmac Aes.

Record suite := { su_auth : N; su_integ : N; su_conf : N }.
Definition suite_eqb (a b : suite) : bool :=
  (su_auth a =? su_auth b) && (su_integ a =? su_integ b) && (su_conf a =? su_conf b).

Record session_opts := { so_user : bytes; so_password : bytes; so_kg : bytes; so_priv : N; so_lookup : bool }.

(* ---- the byte strings that are hashed (authenticator.go), exactly in the code's order ---- *)
Definition hashed_role (r1 : rakp1) : N := N.lor (u8 (r1_maxpriv r1)) (if r1_lookup r1 then 0 else 16).
Definition user_part (r1 : rakp1) : bytes :=
  [hashed_role r1; u8 (N.of_nat (length (r1_username r1)))] ++ r1_username r1.
Definition rakp2_authcode_input (r1 : rakp1) (r2 : rakp2) : bytes :=
  put_le32 (r2_console_id r2) ++ put_le32 (r1_bmc_id r1) ++ r1_random r1 ++ r2_random r2 ++ r2_guid r2 ++ user_part r1.
Definition rakp3_authcode_input (r1 : rakp1) (r2 : rakp2) : bytes :=
  r2_random r2 ++ put_le32 (r2_console_id r2) ++ user_part r1.
Definition sik_input (r1 : rakp1) (r2 : rakp2) : bytes := r1_random r1 ++ r2_random r2 ++ user_part r1.
Definition icv_input (r1 : rakp1) (r2 : rakp2) : bytes := r1_random r1 ++ put_le32 (r1_bmc_id r1) ++ r2_guid r2.
Definition k_const (n : N) : bytes := repeat (u8 n) 20.          (* kConstantLength = 20 *)

(* constant-time comparison: equal contents *)
Definition bytes_eqb (a b : bytes) : bool := if list_eq_dec N.eq_dec a b then true else false.

Inductive hs_error := EPayload (which : nat) | ETag (which : nat) | EStatus (which : nat) | EDecode (which : nat)
                    | EAlgorithms | EUnknownAuth | EIncorrectPassword | EICV | EIntegrity | EConfidentiality
                    | ESerialize | EFault.

Record established := { es_local_id : N; es_remote_id : N; es_sik : bytes; es_k1 : bytes; es_k2 : bytes;
                        es_suite : suite; es_aes_key : bytes }.

Definition open_request (o : session_opts) (s : suite) : opensessionreq :=
  {| oq_tag := 0; oq_maxpriv := so_priv o; oq_id := 1;
     oq_auth := {| ap_wildcard := false; ap_alg := su_auth s |};
     oq_integ := {| ap_wildcard := false; ap_alg := su_integ s |};
     oq_conf := {| ap_wildcard := false; ap_alg := su_conf s |} |}.

Definition rakp1_request (o : session_opts) (rsp : opensessionrsp) (random : bytes) : rakp1 :=
  {| r1_tag := 0; r1_bmc_id := os_bmc_id rsp; r1_random := random; r1_lookup := so_lookup o;
     r1_maxpriv := so_priv o; r1_username := so_user o |}.

(* one payload exchange: serialise, retry loop, returns the accepted wrapper payload *)
Definition exchange (ptype : N) (payload : res bytes) (script : list (option bytes)) (which : nat)
  : (list bytes) * (bytes + hs_error) :=
  match payload with
  | Ok p =>
      match payload_packet ptype p with
      | Ok pkt =>
          match payload_loop pkt script 0 with
          | (n, PDone r) => (repeat pkt n, inl r)
          | (n, PExpired) => (repeat pkt n, inr (EPayload which))
          | (n, PSerialize) => (repeat pkt n, inr ESerialize)
          | (n, PFaulted) => (repeat pkt n, inr EFault)
          end
      | _ => ([], inr ESerialize)
      end
  | _ => ([], inr ESerialize)
  end.

Definition aes_key_of (k2 : bytes) : bytes := copy_into (zeros 16) k2.

(* newV2Session after the cipher suite has been determined.
   [random]: the 16 bytes crypto/rand delivers for the console random.
   Returns every datagram transmitted and the session or the error. *)
Definition new_session (o : session_opts) (s : suite) (random : bytes)
           (sc1 sc2 sc3 : list (option bytes)) : list bytes * (established + hs_error) :=
  let '(sent1, r1) := exchange 0x10 (ser_opensessionreq (open_request o s) []) sc1 1 in
  match r1 with
  | inr e => (sent1, inr e)
  | inl p1 =>
    match decode_opensessionrsp opensessionrsp_zero p1 with
    | Fault => (sent1, inr EFault) | Err => (sent1, inr (EDecode 1))
    | Ok rsp =>
      if negb (os_tag rsp =? 0) then (sent1, inr (ETag 1)) else
      if negb (os_status rsp =? 0) then (sent1, inr (EStatus 1)) else
      if negb (suite_eqb {| su_auth := ap_alg (os_auth rsp); su_integ := ap_alg (os_integ rsp); su_conf := ap_alg (os_conf rsp) |} s)
      then (sent1, inr EAlgorithms) else
      let m1 := rakp1_request o rsp random in
      let '(sent2, r2) := exchange 0x12 (ser_rakp1 m1 []) sc2 2 in
      match r2 with
      | inr e => (sent1 ++ sent2, inr e)
      | inl p2 =>
        match decode_rakp2 rakp2_zero p2 with
        | Fault => (sent1 ++ sent2, inr EFault) | Err => (sent1 ++ sent2, inr (EDecode 2))
        | Ok m2 =>
          if negb (r2_tag m2 =? 0) then (sent1 ++ sent2, inr (ETag 2)) else
          if negb (r2_status m2 =? 0) then (sent1 ++ sent2, inr (EStatus 2)) else
          match auth_params (ap_alg (os_auth rsp)) with
          | None => (sent1 ++ sent2, inr EUnknownAuth)
          | Some (h, icvlen) =>
            if negb (bytes_eqb (r2_authcode m2) (hmac_alg h (so_password o) (rakp2_authcode_input m1 m2)))
            then (sent1 ++ sent2, inr EIncorrectPassword) else
            let m3 := {| r3_tag := 0; r3_status := 0; r3_bmc_id := os_bmc_id rsp;
                         r3_authcode := hmac_alg h (so_password o) (rakp3_authcode_input m1 m2) |} in
            let '(sent3, r3) := exchange 0x14 (ser_rakp3 m3 []) sc3 3 in
            let sent := sent1 ++ sent2 ++ sent3 in
            match r3 with
            | inr e => (sent, inr e)
            | inl p3 =>
              match decode_rakp4 rakp4_zero p3 with
              | Fault => (sent, inr EFault) | Err => (sent, inr (EDecode 3))
              | Ok m4 =>
                if negb (r4_tag m4 =? 0) then (sent, inr (ETag 3)) else
                if negb (r4_status m4 =? 0) then (sent, inr (EStatus 3)) else
                let kg := if Nat.eqb (length (so_kg o)) 0 then so_password o else so_kg o in
                let sik := hmac_alg h kg (sik_input m1 m2) in
                let full := hmac_alg h sik (icv_input m1 m2) in
                let icv := if Nat.eqb icvlen 0 then full else firstn icvlen full in
                if negb (bytes_eqb (r4_icv m4) icv) then (sent, inr EICV) else
                let k1 := hmac_alg h sik (k_const 1) in
                let k2 := hmac_alg h sik (k_const 2) in
                match integrity_sign (ap_alg (os_integ rsp)) k1 with
                | None => (sent, inr EIntegrity)
                | Some _ =>
                  if ap_alg (os_integ rsp) =? 0 then (sent, inr EIntegrity) else
                  if negb (ap_alg (os_conf rsp) =? 1) then (sent, inr EConfidentiality) else
                  (sent, inl {| es_local_id := os_console_id rsp; es_remote_id := os_bmc_id rsp; es_sik := sik;
                                es_k1 := k1; es_k2 := k2; es_suite := s; es_aes_key := aes_key_of k2 |})
                end
              end
            end
          end
        end
      end
    end
  end.

Definition session_of (e : established) : option session :=
  match integrity_sign (su_integ (es_suite e)) (es_k1 e) with
  | Some sg => Some {| s_local_id := es_local_id e; s_remote_id := es_remote_id e; s_sign := sg;
                       s_enc := aes128_encrypt_block (es_aes_key e); s_dec := aes128_decrypt_block (es_aes_key e) |}
  | None => None
  end.

(* ---- determineCipherSuite ---- *)
Definition default_suites : list suite :=
  [ {| su_auth := 3; su_integ := 4; su_conf := 1 |};      (* Cipher Suite 17 *)
    {| su_auth := 1; su_integ := 1; su_conf := 1 |} ].    (* Cipher Suite 3 *)
Inductive choice := Chosen (s : suite) (discovery : bool) | NoSupportedSuite.
Definition determine (desired : list suite) (advertised : list suite) : choice :=
  let d := match desired with [] => default_suites | _ => desired end in
  match d with
  | [one] => Chosen one false
  | _ => match find (fun x => existsb (suite_eqb x) advertised) d with
         | Some s => Chosen s true
         | None => NoSupportedSuite
         end
  end.
