(* EnumTermination.v — the two paging loops stop whatever the BMC answers: the fuel of the models
   (65 chunk requests, 256 page requests) is never the reason for stopping, so the fuelled functions
   are the loops of the Go code and not a truncation of them. *)
From BMC Require Import Base Prim Proc.
From Coq Require Import ZifyN ZifyNat ZifyBool.
Ltac Zify.zify_post_hook ::= Z.div_mod_to_equations.

(* ---- cipher-suite chunks: list index 0..64, whatever is served ---- *)
Lemma retrieve_chunks_fuel serve : forall f1 f2 idx acc req,
  idx <= 64 -> (65 - N.to_nat idx <= f1)%nat -> (65 - N.to_nat idx <= f2)%nat ->
  retrieve_chunks serve idx f1 acc req = retrieve_chunks serve idx f2 acc req.
Proof.
  induction f1 as [|f1 IH]; intros f2 idx acc req Hi H1 H2; [lia|].
  destruct f2 as [|f2]; [lia|]. cbn [retrieve_chunks].
  destruct (serve (N.land idx 63)) as [chunk|]; [|reflexivity].
  destruct (N.eqb_spec idx 64) as [E|E]; [reflexivity|]. cbn [orb].
  destruct (Nat.ltb (length chunk) 16); [reflexivity|].
  apply IH; lia.
Qed.

Theorem retrieve_chunks_terminates serve fuel : (65 <= fuel)%nat ->
  retrieve_chunks serve 0 fuel [] 0 = retrieve_chunks serve 0 65 [] 0.
Proof. intros H. apply retrieve_chunks_fuel; lia. Qed.

Lemma retrieve_chunks_requests serve : forall f idx acc req out n,
  retrieve_chunks serve idx f acc req = Some (out, n) -> (n <= req + f)%nat.
Proof.
  induction f as [|f IH]; intros idx acc req out n H; cbn [retrieve_chunks] in H.
  - injection H as _ <-. lia.
  - destruct (serve (N.land idx 63)) as [chunk|]; [|discriminate].
    destruct ((idx =? 64) || Nat.ltb (length chunk) 16).
    + injection H as _ <-. lia.
    + apply IH in H. lia.
Qed.

Theorem retrieve_chunks_at_most_65 serve out n :
  retrieve_chunks serve 0 65 [] 0 = Some (out, n) -> (n <= 65)%nat.
Proof. intros H. apply retrieve_chunks_requests in H. lia. Qed.

(* ---- DCMI sensor info: the total is a byte on the wire ---- *)
Definition byte_totals (serve : N -> option (N * list N)) : Prop :=
  forall s total page, serve s = Some (total, page) -> total < 256.

Lemma entity_instances_fuel serve : byte_totals serve -> forall f1 f2 ids req,
  (length ids < 256)%nat -> (256 - length ids <= f1)%nat -> (256 - length ids <= f2)%nat ->
  entity_instances serve ids f1 req = entity_instances serve ids f2 req.
Proof.
  intros HB. induction f1 as [|f1 IH]; intros f2 ids req Hl H1 H2; [lia|].
  destruct f2 as [|f2]; [lia|]. cbn [entity_instances].
  destruct (serve (u8 (N.of_nat (length ids) + 1))) as [[total page]|] eqn:E; [|reflexivity].
  apply HB in E.
  destruct (Nat.eqb_spec (length page) 0) as [P0|P0]; [reflexivity|]. cbn [orb].
  destruct (Nat.eqb (length (ids ++ page)) 255); [reflexivity|].
  destruct (Nat.ltb_spec (length (ids ++ page)) (N.to_nat total)) as [Lt|Ge]; [|reflexivity].
  apply IH; rewrite ?app_length in *; lia.
Qed.

Theorem entity_instances_terminates serve fuel : byte_totals serve -> (256 <= fuel)%nat ->
  entity_instances serve [] fuel 0 = get_entity_instances serve.
Proof. intros HB H. unfold get_entity_instances. apply entity_instances_fuel; cbn [length]; try lia. exact HB. Qed.

Lemma entity_instances_requests serve : forall f ids req out n,
  entity_instances serve ids f req = Some (out, n) -> (n <= req + f)%nat.
Proof.
  induction f as [|f IH]; intros ids req out n H; cbn [entity_instances] in H.
  - injection H as _ <-. lia.
  - destruct (serve _) as [[total page]|]; [|discriminate].
    destruct (Nat.eqb (length page) 0 || Nat.eqb (length (ids ++ page)) 255); [injection H as _ <-; lia|].
    destruct (Nat.ltb _ _); [apply IH in H; lia|injection H as _ <-; lia].
Qed.

Theorem entity_instances_at_most_256 serve out n :
  get_entity_instances serve = Some (out, n) -> (n <= 256)%nat.
Proof. intros H. apply entity_instances_requests in H. lia. Qed.

(* no duplicates: what is returned is the concatenation of the pages served, each asked for at the
   position after the IDs already held *)
Lemma entity_instances_extends serve : forall f ids req out n,
  entity_instances serve ids f req = Some (out, n) -> exists more, out = ids ++ more.
Proof.
  induction f as [|f IH]; intros ids req out n H; cbn [entity_instances] in H.
  - injection H as <- _. exists []. symmetry; apply app_nil_r.
  - destruct (serve _) as [[total page]|]; [|discriminate].
    destruct (Nat.eqb (length page) 0 || Nat.eqb (length (ids ++ page)) 255); [injection H as <- _; eauto|].
    destruct (Nat.ltb _ _).
    + apply IH in H. destruct H as [more ->]. exists (page ++ more). symmetry; apply app_assoc.
    + injection H as <- _; eauto.
Qed.
