(* Timing.v — the deadline arithmetic of one blocking call (C13, the part
   that is logic): backoff.Retry(op, backoff.WithContext(b, ctx)) around
   attempts that each run under context.WithTimeout(ctx, timeout) and a socket
   deadline.  Time is an N (nanoseconds).  Assumptions made explicit in the
   model: an attempt returns no later than its own deadline min(t + T, D)
   (the OS honours SetRead/WriteDeadline - this is what the measured half of
   C13 checks) and reports success only if the reply arrived before that.

   cenkalti/backoff v4.3.0 (the version go.mod pins; retry.go doRetryNotify,
   context.go): after a failed attempt, backOffContext.NextBackOff returns Stop
   if the context is done; otherwise Retry starts a timer for the sleep and
   selects on ctx.Done() and the timer - so a sleep that would pass the deadline
   is cut short AT the deadline and the call returns the context's error then.
   (Earlier v4 releases gave up before a sleep that did not fit; an earlier
   version of this model had that rule.  The correspondence run of C13 now
   compares this model's end time and attempt count with the library over real
   sockets, which is how the difference was noticed.) *)
From BMC Require Import Base.
From Coq Require Import ZifyN ZifyNat ZifyBool.
Ltac Zify.zify_post_hook ::= Z.div_mod_to_equations.

(* one attempt: (time the reply would need, whether it is a valid final response) *)
Definition attempt := (N * bool)%type.

Record call_result := { cr_end : N; cr_ok : bool; cr_attempts : nat }.

Fixpoint retry (t D T : N) (atts : list attempt) (sleeps : list N) : call_result :=
  match atts with
  | [] => {| cr_end := t; cr_ok := false; cr_attempts := 0 |}
  | (d, valid) :: rest =>
      let window := N.min T (D - t) in              (* the attempt's own deadline is min(t + T, D); D - t truncates at 0 *)
      let t1 := t + N.min d window in
      if valid && (d <=? window) then {| cr_end := t1; cr_ok := true; cr_attempts := 1 |}
      else if D <=? t1 then {| cr_end := t1; cr_ok := false; cr_attempts := 1 |}
      else match sleeps with
           | [] => {| cr_end := t1; cr_ok := false; cr_attempts := 1 |}
           | s :: srest =>
               if D <=? t1 + s then {| cr_end := D; cr_ok := false; cr_attempts := 1 |}   (* ctx.Done() wins the select *)
               else let r := retry (t1 + s) D T rest srest in
                    {| cr_end := cr_end r; cr_ok := cr_ok r; cr_attempts := S (cr_attempts r) |}
           end
  end.

(* the call never returns after max(deadline, start) *)
Theorem retry_deadline : forall atts sleeps t D T, cr_end (retry t D T atts sleeps) <= N.max D t.
Proof.
  induction atts as [|[d valid] rest IH]; intros sleeps t D T; cbn [retry cr_end]; [lia|].
  set (window := N.min T (D - t)). set (t1 := t + N.min d window).
  assert (H1 : t1 <= N.max D t) by (subst t1 window; lia).
  destruct (valid && (d <=? window))%bool; cbn [cr_end]; [exact H1|].
  destruct (N.leb_spec D t1); cbn [cr_end]; [exact H1|].
  destruct sleeps as [|s srest]; cbn [cr_end]; [exact H1|].
  destruct (N.leb_spec D (t1 + s)); cbn [cr_end]; [lia|].
  specialize (IH srest (t1 + s) D T). lia.
Qed.

(* with an already expired context: one attempt of zero duration, no success *)
Theorem retry_expired : forall atts sleeps t D T, D <= t -> atts <> [] ->
  let r := retry t D T atts sleeps in
  cr_end r = t /\ cr_attempts r = 1%nat /\ (cr_ok r = true -> exists rest, atts = (0, true) :: rest).
Proof.
  intros atts sleeps t D T HD Hne. destruct atts as [|[d valid] rest]; [contradiction|]. cbn [retry].
  replace (D - t) with 0 by lia. rewrite N.min_0_r, N.min_0_r, N.add_0_r.
  destruct valid; cbn [andb].
  - destruct (N.leb_spec d 0).
    + cbn. repeat split. intros _. exists rest. f_equal. f_equal. lia.
    + destruct (N.leb_spec D t); [|lia]. cbn. repeat split. discriminate.
  - destruct (N.leb_spec D t); [|lia]. cbn. repeat split. discriminate.
Qed.

(* success is only ever reported for an attempt whose valid reply arrived inside its window *)
Theorem retry_no_false_success : forall atts sleeps t D T,
  cr_ok (retry t D T atts sleeps) = true -> exists d, In (d, true) atts /\ d <= T.
Proof.
  induction atts as [|[d valid] rest IH]; intros sleeps t D T; cbn [retry cr_ok]; [discriminate|].
  set (window := N.min T (D - t)). set (t1 := t + N.min d window).
  destruct (valid && (d <=? window))%bool eqn:E; cbn [cr_ok].
  - intros _. apply andb_true_iff in E. destruct E as [-> E]. exists d. split; [left; reflexivity|]. subst window. lia.
  - destruct (D <=? t1); cbn [cr_ok]; [discriminate|].
    destruct sleeps as [|s srest]; cbn [cr_ok]; [discriminate|].
    destruct (D <=? t1 + s); cbn [cr_ok]; [discriminate|].
    intros H. destruct (IH _ _ _ _ H) as [d' [Hin Hd]]. exists d'. split; [right; exact Hin|exact Hd].
Qed.

(* the number of attempts is bounded by the deadline and the smallest back-off sleep *)
Lemma div_step a b smin : 0 < smin -> smin <= b -> a / smin + 1 <= (a + b) / smin.
Proof.
  intros Hs Hb. replace (a / smin + 1) with ((a + 1 * smin) / smin) by (rewrite N.div_add by lia; reflexivity).
  apply N.div_le_mono; lia.
Qed.

Theorem retry_attempts_bounded : forall atts sleeps t D T smin,
  0 < smin -> Forall (fun s => smin <= s) sleeps -> t <= D ->
  N.of_nat (cr_attempts (retry t D T atts sleeps)) <= 1 + (D - t) / smin.
Proof.
  induction atts as [|[d valid] rest IH]; intros sleeps t D T smin Hs Hall Ht; cbn [retry cr_attempts].
  { generalize ((D - t) / smin). intros q. lia. }
  set (window := N.min T (D - t)). set (t1 := t + N.min d window).
  assert (Small : N.of_nat 1 <= 1 + (D - t) / smin) by (generalize ((D - t) / smin); intros q; lia).
  destruct (valid && (d <=? window))%bool; cbn [cr_attempts]; [exact Small|].
  destruct (N.leb_spec D t1); cbn [cr_attempts]; [exact Small|].
  destruct sleeps as [|s srest]; cbn [cr_attempts]; [exact Small|].
  destruct (N.leb_spec D (t1 + s)); cbn [cr_attempts]; [exact Small|].
  inversion Hall as [|? ? Hs1 Hrest]; subst.
  assert (Ht1 : t <= t1) by (subst t1; lia).
  specialize (IH srest (t1 + s) D T smin Hs Hrest ltac:(lia)).
  pose proof (div_step (D - (t1 + s)) (s + (t1 - t)) smin Hs ltac:(lia)) as G.
  replace (D - (t1 + s) + (s + (t1 - t))) with (D - t) in G by lia.
  revert IH G. generalize ((D - (t1 + s)) / smin) ((D - t) / smin). intros q1 q2 IH G.
  rewrite Nat2N.inj_succ. lia.
Qed.

(* non-vacuity: a black hole with a 3.5 x timeout deadline: the second sleep is cut short at the deadline *)
Example retry_blackhole :
  let r := retry 0 350 100 [(1000, false); (1000, false); (1000, false)] [100; 150; 200] in
  cr_end r = 350 /\ cr_ok r = false /\ cr_attempts r = 2%nat.
Proof. vm_compute. repeat split. Qed.
