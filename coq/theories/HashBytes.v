(* HashBytes.v — the digests of the executable hash models are byte strings
   of their fixed lengths, for every input.

   The digest is [X_digest_of_state s]: a concatenation of [be_bytes32] /
   [le_bytes32] of the state words, and each such byte is [byte _] =
   [N.land _ 0xff] < 256 whatever the word is.  So nothing about the
   compression functions is needed, only that [md5 m], [sha1 m], [sha256 m]
   are a [X_digest_of_state] of some state.  HMAC ends with an application of
   the hash, so its output is a digest as well.

   Depends only on Base, Word, Md5, Sha1, Sha256, Hmac. *)
From BMC Require Import Base Word Md5 Sha1 Sha256 Hmac.

(* ---------- one byte ---------- *)
Lemma byte_lt_256 : forall x, byte x < 256.
Proof.
  intros x. unfold byte.
  change 255 with (N.ones 8). rewrite N.land_ones.
  change 256 with (2 ^ 8). apply N.mod_lt. discriminate.
Qed.

(* ---------- four bytes of a word ---------- *)
Lemma be_bytes32_bytes : forall w, Forall (fun b => b < 256) (be_bytes32 w).
Proof. intros w. unfold be_bytes32. repeat constructor; apply byte_lt_256. Qed.

Lemma le_bytes32_bytes : forall w, Forall (fun b => b < 256) (le_bytes32 w).
Proof. intros w. unfold le_bytes32. repeat constructor; apply byte_lt_256. Qed.

Lemma be_bytes64_bytes : forall w, Forall (fun b => b < 256) (be_bytes64 w).
Proof. intros w. unfold be_bytes64. apply Forall_app; split; apply be_bytes32_bytes. Qed.

Lemma le_bytes64_bytes : forall w, Forall (fun b => b < 256) (le_bytes64 w).
Proof. intros w. unfold le_bytes64. apply Forall_app; split; apply le_bytes32_bytes. Qed.

Local Ltac bytes_of_words :=
  repeat (apply Forall_app; split);
  first [apply be_bytes32_bytes | apply le_bytes32_bytes].

(* ---------- the digest of ANY state is a byte string ---------- *)
Lemma md5_digest_of_state_bytes :
  forall s, Forall (fun b => b < 256) (md5_digest_of_state s).
Proof. intros [[[a b] c] d]. unfold md5_digest_of_state. bytes_of_words. Qed.

Lemma sha1_digest_of_state_bytes :
  forall s, Forall (fun b => b < 256) (sha1_digest_of_state s).
Proof. intros [[[[a b] c] d] e]. unfold sha1_digest_of_state. bytes_of_words. Qed.

Lemma sha256_digest_of_state_bytes :
  forall s, Forall (fun b => b < 256) (sha256_digest_of_state s).
Proof.
  intros [[[[[[[a b] c] d] e] f] g] h]. unfold sha256_digest_of_state. bytes_of_words.
Qed.

(* ---------- the three hashes ---------- *)
Theorem md5_bytes : forall m, Forall (fun b => b < 256) (md5 m).
Proof. intros m. unfold md5. apply md5_digest_of_state_bytes. Qed.

Theorem sha1_bytes : forall m, Forall (fun b => b < 256) (sha1 m).
Proof. intros m. unfold sha1. apply sha1_digest_of_state_bytes. Qed.

Theorem sha256_bytes : forall m, Forall (fun b => b < 256) (sha256 m).
Proof. intros m. unfold sha256. apply sha256_digest_of_state_bytes. Qed.

(* ---------- HMAC over any hash: the output is an output of the hash ---------- *)
Lemma hmac_is_hash_output : forall H k m, exists x, hmac H k m = H x.
Proof. intros H k m. unfold hmac. eexists. reflexivity. Qed.

Lemma hmac_bytes : forall H,
  (forall x, Forall (fun b => b < 256) (H x)) ->
  forall k m, Forall (fun b => b < 256) (hmac H k m).
Proof. intros H HH k m. unfold hmac. apply HH. Qed.

Lemma hmac_length_of : forall H n,
  (forall x, length (H x) = n) ->
  forall k m, length (hmac H k m) = n.
Proof. intros H n HH k m. unfold hmac. apply HH. Qed.

Lemma hash_of_bytes : forall a x, Forall (fun b => b < 256) (hash_of a x).
Proof.
  intros a x.
  destruct (N.eq_dec a 1) as [->|N1]; [apply sha1_bytes|].
  destruct (N.eq_dec a 2) as [->|N2]; [apply md5_bytes|].
  destruct (N.eq_dec a 3) as [->|N3]; [apply sha256_bytes|].
  replace (hash_of a x) with (@nil N); [constructor|].
  unfold hash_of.
  destruct a as [|[[|[]|]|[|[]|]|]]; try reflexivity; congruence.
Qed.

Theorem hmac_alg_bytes : forall a k m, Forall (fun b => b < 256) (hmac_alg a k m).
Proof. intros a k m. unfold hmac_alg. apply hmac_bytes. apply hash_of_bytes. Qed.

(* ---------- lengths ---------- *)
Theorem hmac_sha1_length : forall k m, length (hmac_alg 1 k m) = 20%nat.
Proof. intros. unfold hmac_alg. apply hmac_length_of. exact sha1_length. Qed.

Theorem hmac_md5_length : forall k m, length (hmac_alg 2 k m) = 16%nat.
Proof. intros. unfold hmac_alg. apply hmac_length_of. exact md5_length. Qed.

Theorem hmac_sha256_length : forall k m, length (hmac_alg 3 k m) = 32%nat.
Proof. intros. unfold hmac_alg. apply hmac_length_of. exact sha256_length. Qed.

Theorem hmac_alg_length_exact : forall a k m,
  length (hmac_alg a k m) =
  match a with 1 => 20%nat | 2 => 16%nat | 3 => 32%nat | _ => 0%nat end.
Proof.
  intros a k m.
  destruct (N.eq_dec a 1) as [->|N1]; [apply hmac_sha1_length|].
  destruct (N.eq_dec a 2) as [->|N2]; [apply hmac_md5_length|].
  destruct (N.eq_dec a 3) as [->|N3]; [apply hmac_sha256_length|].
  unfold hmac_alg, hmac, hash_of.
  destruct a as [|[[|[]|]|[|[]|]|]]; try reflexivity; congruence.
Qed.

Theorem hmac_alg_length16 : forall a k m,
  In a [1;2;3] -> (16 <= length (hmac_alg a k m))%nat.
Proof.
  intros a k m [<-|[<-|[<-|[]]]].
  - rewrite hmac_sha1_length. lia.
  - rewrite hmac_md5_length. lia.
  - rewrite hmac_sha256_length. lia.
Qed.

Print Assumptions md5_bytes.
Print Assumptions sha1_bytes.
Print Assumptions sha256_bytes.
Print Assumptions hmac_alg_bytes.
Print Assumptions hmac_alg_length_exact.
Print Assumptions hmac_alg_length16.
