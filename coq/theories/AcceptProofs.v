(* AcceptProofs.v — C04: what it means for the console to accept a datagram
   as a command's response inside a session. *)
From BMC Require Import Base BaseFacts Prim Layers Layers2 Serialize Packet Conn ConnProofs LayerTotal.

Lemma bind_ok {A B} (r : res A) (f : A -> res B) b : bind r f = Ok b -> exists a, r = Ok a /\ f a = Ok b.
Proof. destruct r; simpl; intros E; try discriminate. eauto. Qed.
Lemma guard_ok {A} c (k : res A) a : guard c k = Ok a -> c = false /\ k = Ok a.
Proof. unfold guard. destruct c; intros E; [discriminate|auto]. Qed.
Lemma slice_from_inv a bs s : slice_from a bs = Ok s -> s = skipn a bs /\ (a <= length bs)%nat.
Proof. unfold slice_from. destruct (Nat.leb_spec a (length bs)) as [L|L]; intros E; [injection E as <-; auto|discriminate]. Qed.
Lemma slice_to_inv a bs s : slice_to a bs = Ok s -> s = firstn a bs /\ (a <= length bs)%nat.
Proof. unfold slice_to. destruct (Nat.leb_spec a (length bs)) as [L|L]; intros E; [injection E as <-; auto|discriminate]. Qed.

(* an accepted wrapper with the authenticated flag: the datagram splits into the signed range and an AuthCode
   that equals the integrity algorithm's output over exactly that range *)
Theorem v2_authenticated_inv sign old bs w :
  decode_v2session sign old bs = Ok w -> v2_authenticated w = true ->
  exists k, (k <= length bs)%nat /\ v2_signature w = skipn k bs /\ v2_signature w = sign (firstn k bs) /\
            bs = firstn k bs ++ v2_signature w.
Proof.
  unfold decode_v2session. intros H Ha.
  apply guard_ok in H. destruct H as [_ H].
  apply bind_ok in H. destruct H as [d0 [_ H]].
  apply guard_ok in H. destruct H as [_ H].
  apply bind_ok in H. destruct H as [d1 [_ H]].
  apply bind_ok in H. destruct H as [[[offset ent] pid] [_ H]].
  apply bind_ok in H. destruct H as [id [_ H]].
  apply bind_ok in H. destruct H as [sq [_ H]].
  apply bind_ok in H. destruct H as [len [_ H]].
  apply guard_ok in H. destruct H as [_ H].
  apply bind_ok in H. destruct H as [payload [_ H]].
  destruct (negb (tbit 6 d1)) eqn:E.
  - injection H as <-. cbn [v2_authenticated] in Ha. rewrite Ha in E. discriminate.
  - apply bind_ok in H. destruct H as [rem [_ H]].
    apply guard_ok in H. destruct H as [_ H].
    apply bind_ok in H. destruct H as [sg [Hsg H]].
    apply bind_ok in H. destruct H as [signed [Hsd H]].
    apply guard_ok in H. destruct H as [Heq H].
    injection H as <-. cbn [v2_signature].
    apply slice_from_inv in Hsg. destruct Hsg as [-> Hk]. apply slice_to_inv in Hsd. destruct Hsd as [-> _].
    apply negb_false_iff in Heq.
    match type of Heq with (if ?d then _ else _) = true => destruct d as [Eq|]; [|discriminate] end.
    eexists. split; [exact Hk|]. split; [reflexivity|]. split; [exact Eq|]. symmetry. apply firstn_skipn.
Qed.

(* an accepted confidentiality layer: block-aligned, pad length n <= 16 inside the ciphertext, pad bytes 01 .. n *)
Theorem aescbc_accept_inv dec old bs a :
  decode_aescbc dec old bs = Ok a ->
  let data := firstn 16 bs ++ cbc_decrypt dec (firstn 16 bs) (skipn 16 bs) in
  exists n, (Nat.modulo (length bs) 16 = 0)%nat /\ (17 <= length bs)%nat /\ n <= 16 /\
            get (length bs - 1) data = Ok n /\
            (16 <= length bs - N.to_nat n - 1)%nat /\
            pad_ok (firstn (N.to_nat n) (skipn (length bs - N.to_nat n - 1) data)) 1 = true /\
            ae_payload a = firstn (length bs - N.to_nat n - 1 - 16) (skipn 16 data).
Proof.
  unfold decode_aescbc. intros H. cbv zeta.
  apply guard_ok in H. destruct H as [G H].
  apply bind_ok in H. destruct H as [iv [Hiv H]]. apply bind_ok in H. destruct H as [ct [Hct H]].
  apply slice_to_inv in Hiv. destruct Hiv as [-> _]. apply slice_from_inv in Hct. destruct Hct as [-> _].
  apply bind_ok in H. destruct H as [padb [Hp H]].
  apply guard_ok in H. destruct H as [G2 H]. apply guard_ok in H. destruct H as [G3 H].
  apply bind_ok in H. destruct H as [pad [Hpad H]]. apply guard_ok in H. destruct H as [G4 H].
  apply bind_ok in H. destruct H as [p [Hpl H]]. injection H as <-. cbn [ae_payload].
  apply orb_false_iff in G. destruct G as [G0 G1]. apply Nat.ltb_ge in G0. apply negb_false_iff in G1. apply Nat.eqb_eq in G1.
  apply N.ltb_ge in G2. apply Nat.ltb_ge in G3. apply negb_false_iff in G4.
  exists padb. repeat split; auto.
  - unfold slice in Hpad. match type of Hpad with (if ?c then _ else _) = _ => destruct c; [|discriminate] end.
    injection Hpad as <-. replace (length bs - N.to_nat padb - 1 + N.to_nat padb - (length bs - N.to_nat padb - 1))%nat
      with (N.to_nat padb) in G4 by lia. exact G4.
  - unfold slice in Hpl. match type of Hpl with (if ?c then _ else _) = _ => destruct c; [|discriminate] end.
    injection Hpl as <-. reflexivity.
Qed.

(* receive: the layers that were decoded when the innermost layer is the message *)
Theorem receive_message_inv sign dec bs w m :
  receive sign (Some dec) bs = Ok (InMessage w m) ->
  exists r, decode_rmcp rmcp_zero bs = Ok r /\ rm_class r = 7 /\
            decode_v2session sign v2session_zero (rm_payload r) = Ok w /\
            v2_ptype w = 0 /\
            ((v2_encrypted w = false /\ decode_message message_zero (v2_payload w) = Ok m) \/
             (v2_encrypted w = true /\ exists a, decode_aescbc dec aescbc_zero (v2_payload w) = Ok a /\
                                                 decode_message message_zero (ae_payload a) = Ok m)).
Proof.
  unfold receive. intros H.
  apply bind_ok in H. destruct H as [r [Hr H]].
  destruct (Nat.eqb (length (rm_payload r)) 0); [discriminate|].
  destruct (negb (rm_class r =? 7)) eqn:C; [discriminate|]. apply negb_false_iff, N.eqb_eq in C.
  apply bind_ok in H. destruct H as [sel [Hs H]].
  destruct (negb (sel_plus sel)); [discriminate|].
  assert (Hp : sel_payload sel = rm_payload r).
  { unfold decode_selector in Hs. apply guard_ok in Hs. destruct Hs as [_ Hs]. apply bind_ok in Hs.
    destruct Hs as [b0 [_ Hs]]. injection Hs as <-. reflexivity. }
  rewrite Hp in H.
  apply bind_ok in H. destruct H as [w' [Hw H]].
  destruct (Nat.eqb (length (v2_payload w')) 0); [discriminate|].
  unfold v2_next in H.
  destruct ((v2_ptype w' =? 0) && (v2_enterprise w' =? 0) && (v2_pid w' =? 0))%bool eqn:T; [|discriminate].
  apply andb_true_iff in T. destruct T as [T _]. apply andb_true_iff in T. destruct T as [T _]. apply N.eqb_eq in T.
  destruct (v2_encrypted w') eqn:E.
  - apply bind_ok in H. destruct H as [a [Ha H]].
    destruct (Nat.eqb (length (ae_payload a)) 0); [discriminate|].
    apply bind_ok in H. destruct H as [m' [Hm H]]. injection H as <- <-.
    exists r. repeat split; auto. right. split; [exact E|]. exists a. auto.
  - apply bind_ok in H. destruct H as [m' [Hm H]]. injection H as <- <-.
    exists r. repeat split; auto.
Qed.

(* C04: a command completes in a session only on a datagram that carries the authenticated flag, is addressed to
   this session, whose AuthCode is the integrity algorithm (keyed with K1: [s_sign]) over exactly the bytes from the
   auth-type field up to the AuthCode, and - when encrypted - whose confidentiality pad is well formed *)
Theorem session_accept_sound s o bs m :
  session_verdict s o bs = VFinal m ->
  exists r w, decode_rmcp rmcp_zero bs = Ok r /\ decode_v2session (s_sign s) v2session_zero (rm_payload r) = Ok w /\
    v2_authenticated w = true /\ v2_id w = s_local_id s /\
    (exists k, (k <= length (rm_payload r))%nat /\ v2_signature w = skipn k (rm_payload r) /\
               v2_signature w = s_sign s (firstn k (rm_payload r))) /\
    (v2_encrypted w = true ->
       exists a n, decode_aescbc (s_dec s) aescbc_zero (v2_payload w) = Ok a /\ n <= 16 /\
                   let data := firstn 16 (v2_payload w) ++ cbc_decrypt (s_dec s) (firstn 16 (v2_payload w)) (skipn 16 (v2_payload w)) in
                   get (length (v2_payload w) - 1) data = Ok n /\
                   pad_ok (firstn (N.to_nat n) (skipn (length (v2_payload w) - N.to_nat n - 1) data)) 1 = true /\
                   decode_message message_zero (ae_payload a) = Ok m) /\
    response_matches o m = true.
Proof.
  intros V. destruct (session_verdict_final s o bs m V) as [RM [_ [w [R [I A]]]]].
  destruct (receive_message_inv _ _ _ _ _ R) as [r [Hr [_ [Hw [_ Hcase]]]]].
  exists r, w. repeat split; auto.
  - destruct (v2_authenticated_inv _ _ _ _ Hw A) as [k [K1 [K2 [K3 _]]]]. exists k. auto.
  - intros E. destruct Hcase as [[E' _]|[_ [a [Ha Hm]]]]; [congruence|].
    pose proof (aescbc_accept_inv _ _ _ _ Ha) as P. cbv zeta in P. destruct P as [n [_ [_ [N1 [N2 [_ [N3 _]]]]]]].
    exists a, n. repeat split; auto.
Qed.

(* ---------- rejected forgeries ---------- *)
Theorem unauthenticated_is_rejected s o bs w m :
  receive (s_sign s) (Some (s_dec s)) bs = Ok (InMessage w m) -> v2_authenticated w = false ->
  session_verdict s o bs = VRetry.
Proof. intros R A. unfold session_verdict. rewrite R, A. destruct (negb (v2_id w =? s_local_id s)); reflexivity. Qed.

Theorem other_session_is_rejected s o bs w m :
  receive (s_sign s) (Some (s_dec s)) bs = Ok (InMessage w m) -> v2_id w <> s_local_id s ->
  session_verdict s o bs = VRetry.
Proof. intros R A. unfold session_verdict. rewrite R. apply N.eqb_neq in A. rewrite A. reflexivity. Qed.

Theorem undecodable_is_rejected s o bs :
  receive (s_sign s) (Some (s_dec s)) bs = Err -> session_verdict s o bs = VRetry.
Proof. intros R. unfold session_verdict. rewrite R. reflexivity. Qed.

(* a wrong AuthCode makes the wrapper undecodable *)
Theorem bad_authcode_undecodable sign old bs w :
  decode_v2session sign old bs = Ok w -> v2_authenticated w = true ->
  forall k, (k <= length bs)%nat -> v2_signature w = skipn k bs -> skipn k bs = sign (firstn k bs).
Proof.
  intros H A k Hk Hs. destruct (v2_authenticated_inv _ _ _ _ H A) as [k' [K1 [K2 [K3 K4]]]].
  assert (k = k').
  { assert (L : length (skipn k bs) = length (skipn k' bs)) by (rewrite <- Hs, <- K2; reflexivity).
    rewrite !skipn_length in L. lia. }
  subst k'. rewrite <- K2. exact K3.
Qed.

(* ---------- single-byte (hence single-bit) changes of an accepted response ---------- *)
Lemma decode_rmcp_payload old bs r : decode_rmcp old bs = Ok r -> rm_payload r = skipn 4 bs.
Proof.
  unfold decode_rmcp. intros H. apply guard_ok in H. destruct H as [_ H].
  apply bind_ok in H. destruct H as [b0 [_ H]]. apply bind_ok in H. destruct H as [b2 [_ H]].
  apply bind_ok in H. destruct H as [b3 [_ H]]. apply bind_ok in H. destruct H as [p [Hp H]].
  injection H as <-. cbn [rm_payload]. apply slice_from_inv in Hp. destruct Hp as [-> _]. reflexivity.
Qed.

Lemma verdict_depends_on_payload s o bs bs' :
  skipn 4 bs = skipn 4 bs' ->
  forall m m', session_verdict s o bs = VFinal m -> session_verdict s o bs' = VFinal m' -> m = m'.
Proof.
  intros E m m' V V'.
  destruct (session_verdict_final s o bs m V) as [_ [_ [w [R _]]]].
  destruct (session_verdict_final s o bs' m' V') as [_ [_ [w' [R' _]]]].
  destruct (receive_message_inv _ _ _ _ _ R) as [r [Hr [_ [Hw [_ Hc]]]]].
  destruct (receive_message_inv _ _ _ _ _ R') as [r' [Hr' [_ [Hw' [_ Hc']]]]].
  rewrite (decode_rmcp_payload _ _ _ Hr) in Hw. rewrite (decode_rmcp_payload _ _ _ Hr'), <- E in Hw'.
  rewrite Hw in Hw'. injection Hw' as <-.
  destruct Hc as [[E1 M1]|[E1 [a [A1 M1]]]], Hc' as [[E2 M2]|[E2 [a' [A2 M2]]]]; congruence.
Qed.

Theorem single_byte_change_needs_collision s o L pre a a' post m m' :
  (forall x, length (s_sign s x) = L) -> a <> a' ->
  session_verdict s o (pre ++ a :: post) = VFinal m ->
  session_verdict s o (pre ++ a' :: post) = VFinal m' ->
  m = m' \/ exists x x', x <> x' /\ s_sign s x = s_sign s x'.
Proof.
  intros HL Hne V V'.
  destruct (Nat.lt_ge_cases (length pre) 4) as [Hlt|Hge].
  - (* the change is in the RMCP header's version / reserved / sequence byte (the class byte is checked) or ignored *)
    destruct (list_eq_dec N.eq_dec (skipn 4 (pre ++ a :: post)) (skipn 4 (pre ++ a' :: post))) as [E|NE].
    + left. eapply verdict_depends_on_payload; eauto.
    + exfalso. apply NE. rewrite !skipn_app.
      replace (skipn 4 pre) with (@nil N) by (symmetry; apply skipn_all2; lia).
      cbn [app]. destruct (4 - length pre)%nat as [|n] eqn:D; [lia|]. reflexivity.
  - destruct (session_accept_sound s o _ m V) as [r [w [Hr [Hw [A [_ [[k [K1 [K2 K3]]] _]]]]]]].
    destruct (session_accept_sound s o _ m' V') as [r' [w' [Hr' [Hw' [A' [_ [[k' [K1' [K2' K3']]] _]]]]]]].
    rewrite (decode_rmcp_payload _ _ _ Hr) in *. rewrite (decode_rmcp_payload _ _ _ Hr') in *.
    set (p := skipn 4 (pre ++ a :: post)) in *. set (p' := skipn 4 (pre ++ a' :: post)) in *.
    assert (Hp : p = skipn 4 pre ++ a :: post) by (subst p; rewrite skipn_app; replace (4 - length pre)%nat with 0%nat by lia; reflexivity).
    assert (Hp' : p' = skipn 4 pre ++ a' :: post) by (subst p'; rewrite skipn_app; replace (4 - length pre)%nat with 0%nat by lia; reflexivity).
    assert (Hlen : length p = length p') by (rewrite Hp, Hp', !app_length; reflexivity).
    assert (Hk : k = k').
    { assert (L1 : length (skipn k p) = L) by (rewrite <- K2, K3; apply HL).
      assert (L2 : length (skipn k' p') = L) by (rewrite <- K2', K3'; apply HL).
      rewrite skipn_length in L1, L2. lia. }
    subst k'. set (q := skipn 4 pre) in *.
    destruct (Nat.lt_ge_cases (length q) k) as [Hin|Hout].
    + (* the changed byte is inside the signed range: same AuthCode over different bytes *)
      right. exists (firstn k p), (firstn k p'). split.
      * rewrite Hp, Hp'. rewrite !firstn_app.
        replace (firstn k q) with q by (symmetry; apply firstn_all2; lia).
        destruct (k - length q)%nat as [|n] eqn:D; [lia|]. cbn [firstn]. intros E. apply app_inv_head in E. congruence.
      * rewrite <- K3, <- K3', K2, K2'. rewrite Hp, Hp'. rewrite !skipn_app.
        replace (skipn k q) with (@nil N) by (symmetry; apply skipn_all2; lia).
        destruct (k - length q)%nat as [|n] eqn:D; [lia|]. reflexivity.
    + (* the changed byte is in the AuthCode: the signed bytes are equal, so the codes must be too *)
      exfalso. assert (E : firstn k p = firstn k p').
      { rewrite Hp, Hp', !firstn_app. replace (k - length q)%nat with 0%nat by lia. reflexivity. }
      assert (S : skipn k p = skipn k p') by (rewrite <- K2, <- K2', K3, K3', E; reflexivity).
      assert (P : p = p') by (rewrite <- (firstn_skipn k p), <- (firstn_skipn k p'), E, S; reflexivity).
      rewrite Hp, Hp' in P. apply app_inv_head in P. congruence.
Qed.
