(* TwoWayIdem.v — C08, second half: serialising the value a decoder returns for the bytes of a
   serialisation reproduces those bytes.  The serialisers read only the caller's fields and
   overwrite the computed ones (length, pad, signature, checksums), so serialising their own
   output value again is a fixed point; combined with the round-trips of TwoWayProofs.v. *)
From BMC Require Import Base BaseFacts Prim PrimProofs Layers Layers2 Serialize LayerTotal TwoWayProofs.
From Coq Require Import ZifyN ZifyNat ZifyBool.

Lemma ok_pair {A B} (a a' : A) (b b' : B) : @Ok (A * B) (a, b) = Ok (a', b') -> a = a' /\ b = b'.
Proof. intros H. injection H as -> ->. auto. Qed.

(* ---- V2Session ---- *)
Lemma ser_v2session_idem sign v p v' bs : ser_v2session sign v p = Ok (v', bs) ->
  ser_v2session sign (v2_set_payload v' p) p = Ok (v2_set_payload v' p, bs).
Proof.
  unfold ser_v2session. cbv zeta. destruct (v2_authenticated v) eqn:Ea; intros H; apply ok_pair in H; destruct H as [<- <-];
    unfold v2_set_payload, v2_flags;
    cbn [v2_ptype v2_enterprise v2_pid v2_encrypted v2_authenticated v2_id v2_sequence v2_length v2_pad v2_signature v2_payload];
    rewrite ?Ea; reflexivity.
Qed.

Theorem v2session_two_way sign v p old v' bs :
  v2_in_range v -> N.of_nat (length p) < 65536 ->
  (v2_authenticated v = false -> v2_pad v = 0 /\ v2_signature v = []) ->
  ser_v2session sign v p = Ok (v', bs) ->
  let d := v2_set_payload v' p in
  decode_v2session sign old bs = Ok d /\ v2_payload d = p /\ ser_v2session sign d (v2_payload d) = Ok (d, bs).
Proof.
  intros Hr Hp Hz Hs. cbv zeta. split; [eapply v2session_roundtrip; eauto|]. split; [reflexivity|].
  cbn [v2_set_payload v2_payload]. apply ser_v2session_idem with (v := v). exact Hs.
Qed.

(* ---- Message ---- *)
Lemma ser_message_idem m p m' bs : ser_message m p = Ok (m', bs) ->
  ser_message (m_set_payload m' p) p = Ok (m_set_payload m' p, bs).
Proof.
  unfold ser_message. cbv zeta. intros H. apply ok_pair in H. destruct H as [<- <-].
  unfold m_set_payload.
  cbn [m_function m_body m_enterprise m_command m_remote_addr m_remote_lun m_checksum1 m_local_addr
       m_local_lun m_sequence m_code m_checksum2 m_payload]. reflexivity.
Qed.

Theorem message_two_way m p old m' bs :
  msg_in_range m -> ser_message m p = Ok (m', bs) ->
  let d := m_set_payload m' p in
  decode_message old bs = Ok d /\ m_payload d = p /\ ser_message d (m_payload d) = Ok (d, bs).
Proof.
  intros Hr Hs. cbv zeta. split; [eapply message_roundtrip; eauto|]. split; [reflexivity|].
  cbn [m_set_payload m_payload]. apply ser_message_idem with (m := m). exact Hs.
Qed.

(* ---- V1Session ---- *)
Lemma ser_v1session_idem v p v' bs : ser_v1session v p = Ok (v', bs) ->
  ser_v1session (v1_set_payload v' p) p = Ok (v1_set_payload v' p, bs).
Proof.
  unfold ser_v1session. cbv zeta. destruct (u8 (v1_authtype v) =? 0) eqn:Ea; intros H; apply ok_pair in H; destruct H as [<- <-];
    unfold v1_set_payload; cbn [v1_authtype v1_sequence v1_id v1_authcode v1_length v1_payload]; rewrite Ea; reflexivity.
Qed.

Theorem v1session_two_way v p old v' bs :
  v1_authtype v < 256 -> v1_sequence v < 4294967296 -> v1_id v < 4294967296 ->
  length (v1_authcode v) = 16%nat -> (v1_authtype v = 0 -> v1_authcode v = zeros 16) ->
  ser_v1session v p = Ok (v', bs) ->
  let d := v1_set_payload v' p in
  decode_v1session old bs = Ok d /\ v1_payload d = p /\ ser_v1session d (v1_payload d) = Ok (d, bs).
Proof.
  intros H1 H2 H3 H4 H5 Hs. cbv zeta. split; [eapply v1session_roundtrip; eauto|]. split; [reflexivity|].
  cbn [v1_set_payload v1_payload]. apply ser_v1session_idem with (v := v). exact Hs.
Qed.

(* ---- RAKP Message 1: the serialiser does not change the value ---- *)
Theorem rakp1_two_way v p old bs :
  r1_tag v < 256 -> r1_bmc_id v < 4294967296 -> length (r1_random v) = 16%nat ->
  r1_maxpriv v < 16 -> (length (r1_username v) <= 16)%nat ->
  ser_rakp1 v p = Ok bs ->
  exists d, decode_rakp1 old bs = Ok d /\ d = v /\ ser_rakp1 d p = Ok bs.
Proof. intros. exists v. split; [eapply rakp1_roundtrip; eauto|]. auto. Qed.

(* ---- AES-128-CBC over any block permutation, for every payload length; the IV aside ---- *)
Section Aes.
Variables enc dec : bytes -> bytes.
Hypothesis dec_enc : forall b, length b = 16%nat -> dec (enc b) = b.
Hypothesis enc_length : forall b, length (enc b) = 16%nat.
Theorem aes_two_way iv p old bs : length iv = 16%nat -> ser_aescbc enc iv p = Ok bs ->
  exists d, decode_aescbc dec old bs = Ok d /\ ae_payload d = p /\ ser_aescbc enc iv (ae_payload d) = Ok bs.
Proof.
  intros Hiv Hs. exists {| ae_payload := p |}. split; [eapply aes_roundtrip; eauto|]. split; [reflexivity|exact Hs].
Qed.
End Aes.
