(* BaseFacts.v — lemmas about Base: sweeps lifted to universal statements,
   little-endian round trips, accessor totality under a length guard. *)
From BMC Require Import Base.
From Coq Require Import ZifyN ZifyNat ZifyBool.
Ltac Zify.zify_post_hook ::= Z.div_mod_to_equations.

Lemma N_seq_from_In n : forall s x, s <= x < s + N.of_nat n -> In x (N_seq_from s n).
Proof.
  induction n as [|k IH]; intros s x H; simpl.
  - lia.
  - destruct (N.eq_dec s x) as [->|Hne]; [left; reflexivity|right]. apply IH. lia.
Qed.

Lemma N_seq_In n x : x < N.of_nat n -> In x (N_seq n).
Proof. intros H. apply N_seq_from_In. lia. Qed.

(* the lifting lemma for byte sweeps *)
Lemma byte_sweep (P : N -> bool) :
  forallb P all256 = true -> forall b, b < 256 -> P b = true.
Proof.
  intros H b Hb. rewrite forallb_forall in H. apply H. apply N_seq_In. exact Hb.
Qed.

Lemma sweep_n (n : nat) (P : N -> bool) :
  forallb P (N_seq n) = true -> forall b, b < N.of_nat n -> P b = true.
Proof.
  intros H b Hb. rewrite forallb_forall in H. apply H. apply N_seq_In. exact Hb.
Qed.

Lemma le16_put x : x < 65536 -> le16 (x mod 256) ((x / 256) mod 256) = x.
Proof. unfold le16. intros. lia. Qed.

Lemma le32_put x : x < 4294967296 ->
  le32 (x mod 256) ((x / 256) mod 256) ((x / 65536) mod 256) ((x / 16777216) mod 256) = x.
Proof. unfold le32. intros. lia. Qed.

Lemma le24_put x : x < 16777216 ->
  le24 (x mod 256) ((x / 256) mod 256) ((x / 65536) mod 256) = x.
Proof. unfold le24. intros. lia. Qed.

Lemma le16_bound a b : a < 256 -> b < 256 -> le16 a b < 65536.
Proof. unfold le16. lia. Qed.
Lemma le32_bound a b c d : a < 256 -> b < 256 -> c < 256 -> d < 256 -> le32 a b c d < 4294967296.
Proof. unfold le32. lia. Qed.

Lemma put_le16_get a b : a < 256 -> b < 256 -> put_le16 (le16 a b) = [a; b].
Proof. unfold put_le16, le16. intros. f_equal; [lia|f_equal; lia]. Qed.

Lemma put_le32_get a b c d : a < 256 -> b < 256 -> c < 256 -> d < 256 ->
  put_le32 (le32 a b c d) = [a; b; c; d].
Proof. unfold put_le32, le32. intros. repeat (f_equal; try lia). Qed.

Lemma get_ok i bs : (i < length bs)%nat -> exists b, get i bs = Ok b.
Proof.
  intros H. unfold get. destruct (nth_error bs i) eqn:E; [eauto|].
  apply nth_error_None in E. lia.
Qed.

Lemma get_not_fault i bs : (i < length bs)%nat -> get i bs <> Fault.
Proof. intros H. destruct (get_ok i bs H) as [b ->]. discriminate. Qed.

Lemma get_app_l i xs ys : (i < length xs)%nat -> get i (xs ++ ys) = get i xs.
Proof. intros. unfold get. rewrite nth_error_app1; auto. Qed.

Lemma all_bytes_app xs ys : all_bytes (xs ++ ys) = (all_bytes xs && all_bytes ys)%bool.
Proof. apply forallb_app. Qed.

Lemma all_bytes_In bs b : all_bytes bs = true -> In b bs -> b < 256.
Proof.
  unfold all_bytes. rewrite forallb_forall. intros H Hin. apply H in Hin.
  unfold is_byte in Hin. lia.
Qed.

Lemma copy_into_length dst src : length (copy_into dst src) = length dst.
Proof. revert src; induction dst as [|d dr IH]; intros [|s sr]; simpl; auto. Qed.

Lemma copy_into_full dst src : length src = length dst -> copy_into dst src = src.
Proof.
  revert src; induction dst as [|d dr IH]; intros [|s sr]; simpl; intros H; try discriminate; auto.
  f_equal. apply IH. lia.
Qed.
