(* TieConn.v — retry loop and packet constants: temporary completion codes, literals of the packet builders, payload types *)
From Coq Require Import List NArith String Bool.
Import ListNotations.
From BMC Require Import Base Prim Layers Layers2 Serialize SpecRequests Packet Conn Handshake Hmac Proc.
From BMCProps Require Export TieBase.
Local Open Scope N_scope.
Lemma tie_temporary_codes : forall c, is_temporary c = existsb (N.eqb c) G.temporary_codes.
Proof. intros c. unfold is_temporary. cbn. rewrite orb_false_r. reflexivity. Qed.

Lemma tie_literals :
  (forall o lun, m_sequence (request_message o lun) = 1) /\
  (forall o lun, m_remote_addr (request_message o lun) = 2 * G.SlaveAddressBMC) /\
  (forall o lun, m_local_addr (request_message o lun) = 2 * G.SoftwareIDRemoteConsole1 + 1).
Proof. repeat split. Qed.

Lemma tie_payload_types :
  (G.PayloadTypeIPMI, G.PayloadTypeOEM, G.PayloadTypeOpenSessionReq, G.PayloadTypeRAKPMessage1, G.PayloadTypeRAKPMessage3)
  = (0, 2, 0x10, 0x12, 0x14).
Proof. reflexivity. Qed.
Lemma tie_misc :
  G.NetworkFunctionGroupReq = 0x2c /\ G.NetworkFunctionGroupRsp = 0x2d /\ G.NetworkFunctionOEMReq = 0x2e /\
  G.NetworkFunctionOEMRsp = 0x2f /\ G.BodyCodeDCMI = 0xdc /\ G.StatusCodeOK = 0 /\ G.CompletionCodeNormal = 0 /\
  G.SessionIndexHandle = 0xfe /\ G.SessionIndexID = 0xff /\ G.ChannelPresentInterface = 0xe /\
  G.PrivilegeLevelCallback = 1 /\ G.AuthenticationTypeRMCPPlus = 6 /\ G.SystemPowerStatisticsModeEnhanced = 2 /\
  G.SensorTypeTemperature = 1.
Proof. repeat split. Qed.

