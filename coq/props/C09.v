(* C09 — session sequence numbers strictly increase and are never reused.
   [session_loop] is the retry closure of V2Session.buildAndSend over a script:
   what each attempt's read returned (a datagram of any content: valid reply,
   temporary code, garbage, bad signature; or None = lost).  [seq_field] and
   [id_field] read the session wrapper of a transmitted datagram positionally. *)
From BMC Require Import Base Prim Layers Layers2 Serialize Packet Conn ConnProofs.

(* one command: whatever the BMC / network does, the datagrams carry seq+1, seq+2, ...
   (one number per transmitted datagram), all addressed to the BMC's session ID, and
   the session's counter ends at the last number used *)
Theorem C09_command : forall s o lun body script seq ivs sent codes,
  s_remote_id s < 4294967296 -> seq + N.of_nat (length script) < 4294967296 ->
  let r := session_loop s o lun body seq ivs script sent codes in
  exists new, lr_sent r = sent ++ new /\
              map seq_field new = count_from (seq + 1) (length new) /\
              Forall (fun dg => id_field dg = s_remote_id s) new /\
              lr_seq r = seq + N.of_nat (length new) /\ (length new <= length script)%nat.
Proof. exact session_loop_seq. Qed.

(* a history of commands on one session, each with its own script: fold the counter through *)
Fixpoint history (s : session) (seq : N) (cmds : list (operation * N * bytes * list bytes * list (option bytes)))
  : list bytes * N :=
  match cmds with
  | [] => ([], seq)
  | (o, lun, body, ivs, script) :: rest =>
      let r := session_loop s o lun body seq ivs script [] [] in
      let '(more, final) := history s (lr_seq r) rest in
      (lr_sent r ++ more, final)
  end.

Definition total_attempts (cmds : list (operation * N * bytes * list bytes * list (option bytes))) : nat :=
  fold_right (fun c acc => (length (snd c) + acc)%nat) 0%nat cmds.

Theorem C09_history : forall s cmds seq,
  s_remote_id s < 4294967296 -> seq + N.of_nat (total_attempts cmds) < 4294967296 ->
  let '(sent, final) := history s seq cmds in
  map seq_field sent = count_from (seq + 1) (length sent) /\ final = seq + N.of_nat (length sent).
Proof.
  intros s cmds. induction cmds as [|[[[[o lun] body] ivs] script] rest IH]; intros seq Hid Hb.
  - simpl. rewrite N.add_0_r. split; reflexivity.
  - cbn [history]. cbn [total_attempts fold_right snd] in Hb.
    destruct (session_loop_seq s o lun body script seq ivs [] [] Hid ltac:(fold (total_attempts rest) in Hb; lia))
      as [new [E1 [E2 [E3 [E4 E5]]]]]. cbn [app] in E1.
    specialize (IH (lr_seq (session_loop s o lun body seq ivs script [] [])) Hid).
    rewrite E4 in IH |- *. fold (total_attempts rest) in Hb.
    specialize (IH ltac:(lia)).
    destruct (history s (seq + N.of_nat (length new)) rest) as [more final]. destruct IH as [I1 I2].
    rewrite E1. rewrite map_app, app_length, count_from_app, E2, I1. split.
    + f_equal. f_equal. lia.
    + rewrite I2. lia.
Qed.

(* the same over requests as the caller hands them in, including requests the library refuses to serialise (Set Session
   Privilege Level to Callback): those transmit nothing and take no number, so the numbers the BMC receives are still
   seq+1, seq+2, ... without a gap: one per transmitted datagram *)
Fixpoint request_history (s : session) (seq : N) (cmds : list (operation * N * request * list bytes * list (option bytes)))
  : list bytes * N :=
  match cmds with
  | [] => ([], seq)
  | (o, lun, r, ivs, script) :: rest =>
      let res := session_send s seq ivs o lun r script in
      let '(more, final) := request_history s (lr_seq res) rest in
      (lr_sent res ++ more, final)
  end.
Definition total_request_attempts (cmds : list (operation * N * request * list bytes * list (option bytes))) : nat :=
  fold_right (fun c acc => (length (snd c) + acc)%nat) 0%nat cmds.

Theorem C09_request_history : forall s cmds seq,
  s_remote_id s < 4294967296 -> seq + N.of_nat (total_request_attempts cmds) < 4294967296 ->
  let '(sent, final) := request_history s seq cmds in
  map seq_field sent = count_from (seq + 1) (length sent) /\ final = seq + N.of_nat (length sent) /\
  Forall (fun dg => id_field dg = s_remote_id s) sent.
Proof.
  intros s cmds. induction cmds as [|[[[[o lun] r] ivs] script] rest IH]; intros seq Hid Hb.
  - simpl. rewrite N.add_0_r. repeat split; auto.
  - cbn [request_history]. cbn [total_request_attempts fold_right snd] in Hb. fold (total_request_attempts rest) in Hb.
    destruct (session_send_seq s o lun r script seq ivs Hid ltac:(lia)) as [E2 [E3 [E4 E5]]].
    specialize (IH (lr_seq (session_send s seq ivs o lun r script)) Hid).
    rewrite E4 in IH |- *. specialize (IH ltac:(lia)).
    destruct (request_history s (seq + N.of_nat (length (lr_sent (session_send s seq ivs o lun r script)))) rest) as [more final].
    destruct IH as [I1 [I2 I3]].
    rewrite map_app, app_length, count_from_app, E2, I1. split; [|split].
    + f_equal. f_equal. lia.
    + rewrite I2. lia.
    + apply Forall_app. split; assumption.
Qed.

Theorem C09_refused_request_takes_no_number : forall s o lun r script seq ivs,
  (forall body, ser_request r [] <> Ok body) ->
  lr_sent (session_send s seq ivs o lun r script) = [] /\ lr_seq (session_send s seq ivs o lun r script) = seq /\
  lr_outcome (session_send s seq ivs o lun r script) = OSerialize.
Proof. exact session_send_refused. Qed.
(* ... and there is such a request: the premise is not vacuous *)
Example C09_callback_is_refused : forall body, ser_request (RqSetPriv 1) [] <> Ok body.
Proof. intros body. vm_compute. discriminate. Qed.

(* Session.Close is one more command on the session: its datagrams take the next numbers *)
Theorem C09_close_takes_next_numbers : forall s script seq ivs,
  s_remote_id s < 4294967296 -> seq + N.of_nat (length script) < 4294967296 ->
  let res := session_close s seq ivs script in
  map seq_field (lr_sent res) = count_from (seq + 1) (length (lr_sent res)) /\
  Forall (fun dg => id_field dg = s_remote_id s) (lr_sent res) /\
  lr_seq res = seq + N.of_nat (length (lr_sent res)).
Proof. exact session_close_seq. Qed.

(* datagrams sent outside a session (commands and the three handshake payloads): ID 0, sequence 0 *)
Theorem C09_sessionless : forall o lun body pkt,
  sessionless_command_packet o lun body = Ok pkt -> id_field pkt = 0 /\ seq_field pkt = 0.
Proof. exact sessionless_packet_null. Qed.
Theorem C09_handshake : forall ptype payload pkt, In ptype [0x10; 0x12; 0x14] ->
  payload_packet ptype payload = Ok pkt -> id_field pkt = 0 /\ seq_field pkt = 0.
Proof. exact payload_packet_null. Qed.

(* strictly increasing, hence never reused *)
Lemma count_from_increasing : forall n a i j, (i < j < n)%nat -> nth i (count_from a n) 0 < nth j (count_from a n) 0.
Proof.
  induction n as [|n IH]; intros a i j H; [lia|]. cbn [count_from].
  destruct i as [|i], j as [|j]; try lia; cbn [nth].
  - clear IH. assert (G : forall m b k, (k < m)%nat -> b <= nth k (count_from b m) 0).
    { induction m as [|m IHm]; intros b k Hk; [lia|]. cbn [count_from]. destruct k; cbn [nth]; [lia|].
      specialize (IHm (b + 1) k ltac:(lia)). lia. }
    specialize (G n (a + 1) j ltac:(lia)). lia.
  - apply IH. lia.
Qed.
Theorem C09_never_reused : forall s cmds seq i j,
  s_remote_id s < 4294967296 -> seq + N.of_nat (total_attempts cmds) < 4294967296 ->
  let sent := fst (history s seq cmds) in
  (i < j < length sent)%nat -> nth i (map seq_field sent) 0 < nth j (map seq_field sent) 0.
Proof.
  intros s cmds seq i j Hid Hb. pose proof (C09_history s cmds seq Hid Hb) as H.
  destruct (history s seq cmds) as [sent final]. cbn [fst]. destruct H as [H _]. intros Hij.
  rewrite H. apply count_from_increasing. exact Hij.
Qed.
