(* C10 — retries re-send the same well-formed request until a final answer.
   Scripts: what each attempt's read returned; an exhausted script = the caller's
   context expired.  [decides o r]: attempt r produced a valid response to o with a
   non-temporary code. *)
From BMC Require Import Base Prim Layers Layers2 Serialize Packet Conn ConnProofs.

(* session-less: the same datagram, serialised once, is transmitted once per attempt up to
   and including the first deciding attempt (all of them if none decides) *)
Theorem C10_sessionless_resends : forall pkt o script,
  lr_sent (sessionless_loop pkt o script [] []) = repeat pkt (attempts o script).
Proof. intros. apply (sessionless_loop_resends pkt o script [] []). Qed.

(* ... and the result is exactly the first deciding attempt's response: every earlier
   attempt was lost, undecodable, for another command, or carried 0xC0 / 0xC3 *)
Theorem C10_sessionless_result : forall pkt o script m,
  lr_outcome (sessionless_loop pkt o script [] []) = OFinal m ->
  exists pre bs post, script = pre ++ Some bs :: post /\
                      Forall (fun r => decides o r = false) pre /\
                      sessionless_verdict o bs = VFinal m.
Proof. intros. eapply sessionless_loop_origin; eauto. Qed.

(* a final response carries a completion code other than node busy / timeout *)
Theorem C10_final_code : forall o bs m, sessionless_verdict o bs = VFinal m ->
  m_code m <> 0xc0 /\ m_code m <> 0xc3.
Proof.
  intros o bs m H. destruct (sessionless_verdict_final o bs m H) as [_ [T _]].
  unfold is_temporary in T. apply Bool.orb_false_iff in T. destruct T as [T1 T2].
  apply N.eqb_neq in T1, T2. auto.
Qed.

(* in a session every attempt is a fresh complete encoding (next sequence number, next IV) of the same
   command addressed to the BMC's session, C09_command; a lost reply ends the command at once *)
Theorem C10_session_lost_is_terminal : forall s o lun body seq ivs rest sent codes,
  lr_outcome (session_loop s o lun body seq ivs (None :: rest) sent codes) = OTransport /\
  length (lr_sent (session_loop s o lun body seq ivs (None :: rest) sent codes)) = S (length sent).
Proof. exact session_loop_lost_terminal. Qed.

Theorem C10_session_result : forall s o lun body script seq ivs sent codes m,
  lr_outcome (session_loop s o lun body seq ivs script sent codes) = OFinal m ->
  exists bs, In (Some bs) script /\ session_verdict s o bs = VFinal m.
Proof. exact session_loop_origin. Qed.
