(* TieOps.v — the operation table: command -> (NetFn, body code, enterprise, command), requests and responses *)
From Coq Require Import List NArith String Bool.
Import ListNotations.
From BMC Require Import Base Prim Layers Layers2 Serialize SpecRequests Packet Conn Handshake Hmac Proc.
From BMCProps Require Export TieBase.
Local Open Scope N_scope.

Definition op_lookup (name : string) : option (N * N * N * N) :=
  match find (fun e => String.eqb (fst e) name) G.operations with Some e => Some (snd e) | None => None end.
Definition cmd_op (cmd : string) : option (N * N * N * N) :=
  match find (fun e => String.eqb (fst e) cmd) G.command_operation with
  | Some e => op_lookup (snd e) | None => None end.

(* the code's command -> (NetFn, body code, enterprise, command) equals the specification's command table *)
Definition spec_row (c : SpecParse.command) : option (N * N * N * N) :=
  let '(fn, cmd, body) := SpecParse.command_code c in
  Some (fn, match body with Some b => b | None => 0 end, 0, cmd).
Definition code_name (c : SpecParse.command) : string :=
  match c with
  | SpecParse.CGetChassisStatus => "GetChassisStatusCmd" | SpecParse.CChassisControl => "ChassisControlCmd"
  | SpecParse.CGetDeviceID => "GetDeviceIDCmd" | SpecParse.CGetSystemGUID => "GetSystemGUIDCmd"
  | SpecParse.CGetChannelAuthCaps => "GetChannelAuthenticationCapabilitiesCmd"
  | SpecParse.CSetSessionPriv => "SetSessionPrivilegeLevelCmd" | SpecParse.CCloseSession => "CloseSessionCmd"
  | SpecParse.CGetSDRRepoInfo => "GetSDRRepositoryInfoCmd" | SpecParse.CReserveSDRRepo => "ReserveSDRRepositoryCmd"
  | SpecParse.CGetSDR => "GetSDRCmd" | SpecParse.CGetSensorReading => "GetSensorReadingCmd"
  | SpecParse.CGetSessionInfo => "GetSessionInfoCmd" | SpecParse.CGetChannelCipherSuites => "GetChannelCipherSuitesCmd"
  | SpecParse.CDCMICaps => "getDCMICapabilitiesInfoCmd" | SpecParse.CDCMIPowerReading => "GetPowerReadingCmd"
  | SpecParse.CDCMISensorInfo => "GetDCMISensorInfoCmd"
  end.
Definition all_commands : list SpecParse.command :=
  [SpecParse.CGetChassisStatus; SpecParse.CChassisControl; SpecParse.CGetDeviceID; SpecParse.CGetSystemGUID;
   SpecParse.CGetChannelAuthCaps; SpecParse.CSetSessionPriv; SpecParse.CCloseSession; SpecParse.CGetSDRRepoInfo;
   SpecParse.CReserveSDRRepo; SpecParse.CGetSDR; SpecParse.CGetSensorReading; SpecParse.CGetSessionInfo;
   SpecParse.CGetChannelCipherSuites; SpecParse.CDCMICaps; SpecParse.CDCMIPowerReading; SpecParse.CDCMISensorInfo].
Definition opt_eqb (a b : option (N * N * N * N)) : bool :=
  match a, b with
  | Some (a1, a2, a3, a4), Some (b1, b2, b3, b4) => (a1 =? b1) && (a2 =? b2) && (a3 =? b3) && (a4 =? b4)
  | _, _ => false
  end.
Lemma tie_operation_table :
  forallb (fun c => opt_eqb (cmd_op (code_name c)) (spec_row c)) all_commands = true.
Proof. vm_compute. reflexivity. Qed.
Lemma all_commands_complete : forall c, In c all_commands.
Proof. destruct c; simpl; tauto. Qed.

(* every response operation is the request's with NetFn + 1 (what validateResponseOperation relies on) *)
Lemma tie_response_operations :
  forallb (fun e => let '(name, (fn, body, ent, cmd)) := e in
                    if Nat.eqb (String.length name) 0 then true else
                    match op_lookup (String.append (String.substring 0 (String.length name - 3) name) "Rsp") with
                    | Some (fn', body', ent', cmd') =>
                        if (fn mod 2 =? 0) then (fn' =? fn + 1) && (cmd' =? cmd) && (body' =? body) && (ent' =? ent) else true
                    | None => true
                    end) G.operations = true.
Proof. vm_compute. reflexivity. Qed.

