(* C02 — no session unless the BMC proves knowledge of the password. *)
From BMC Require Import Base Prim Layers Layers2 Serialize Packet Conn Hmac Handshake HandshakeProofs HandshakeReject.

(* whatever was received in the three exchanges (any scripts: retransmissions, garbage, truncations ...), if a
   session is returned then: all three replies decoded, with tag 0 and status OK; the RAKP 2 code received IS the
   HMAC under the caller's password of SID_M | SID_C | R_M | R_C | GUID_C | Role | ULen | UName built from the
   RECEIVED fields and what the console sent; the RAKP 4 ICV received IS the (truncated) HMAC under the SIK -
   itself keyed with KG, or the password when no KG is given - of R_M | SID_C | GUID_C *)
Theorem C02_sound : forall o s random sc1 sc2 sc3 sent e,
  new_session o s random sc1 sc2 sc3 = (sent, inl e) ->
  exists rsp m2 m4 h icvlen b1 p1 b2 p2 b3 p3,
    (In (Some b1) sc1 /\ payload_verdict b1 = PAccept p1 /\ decode_opensessionrsp opensessionrsp_zero p1 = Ok rsp) /\
    (In (Some b2) sc2 /\ payload_verdict b2 = PAccept p2 /\ decode_rakp2 rakp2_zero p2 = Ok m2) /\
    (In (Some b3) sc3 /\ payload_verdict b3 = PAccept p3 /\ decode_rakp4 rakp4_zero p3 = Ok m4) /\
    (os_tag rsp = 0 /\ os_status rsp = 0) /\
    (ap_alg (os_auth rsp) = su_auth s /\ ap_alg (os_integ rsp) = su_integ s /\ ap_alg (os_conf rsp) = su_conf s) /\
    (r2_tag m2 = 0 /\ r2_status m2 = 0) /\ (r4_tag m4 = 0 /\ r4_status m4 = 0) /\
    auth_params (su_auth s) = Some (h, icvlen) /\
    r2_authcode m2 = hmac_alg h (so_password o) (rakp2_authcode_input (rakp1_request o rsp random) m2) /\
    es_sik e = hmac_alg h (if Nat.eqb (length (so_kg o)) 0 then so_password o else so_kg o)
                          (sik_input (rakp1_request o rsp random) m2) /\
    r4_icv m4 = icv_of h icvlen (es_sik e) (rakp1_request o rsp random) m2 /\
    (es_k1 e = hmac_alg h (es_sik e) (k_const 1) /\ es_k2 e = hmac_alg h (es_sik e) (k_const 2)) /\
    (es_local_id e = os_console_id rsp /\ es_remote_id e = os_bmc_id rsp) /\
    (es_suite e = s /\ su_conf s = 1 /\ su_integ s <> 0).
Proof. exact new_session_ok_inv. Qed.


(* ---- the rejection side, with the exact outcome.  [exchange ptype payload script k = (sent, inl p)]: the k-th exchange
   delivered payload p (after whatever retransmissions the script caused).  Each theorem: everything before the
   offending reply was in order, the offending reply is as described, and the result is the stated error - never a
   session - with nothing transmitted after it. ---- *)
(* an undecodable (e.g. truncated) Open Session Response *)
Theorem C02_osr_undecodable :
  forall (o : session_opts) (s : suite) (random : bytes) (sc1 sc2 sc3 : list (option bytes)) (sent1 : list bytes) (p1 : bytes),
  exchange 16 (ser_opensessionreq (open_request o s) []) sc1 1 = (sent1, inl p1) ->
  decode_opensessionrsp opensessionrsp_zero p1 = Err -> new_session o s random sc1 sc2 sc3 = (sent1, inr (EDecode 1)).
Proof. exact osr_undecodable. Qed.
(* a mismatched tag in the Open Session Response *)
Theorem C02_osr_bad_tag :
  forall (o : session_opts) (s : suite) (random : bytes) (sc1 sc2 sc3 : list (option bytes)) (sent1 : list bytes) (p1 : bytes),
  exchange 16 (ser_opensessionreq (open_request o s) []) sc1 1 = (sent1, inl p1) ->
  forall rsp : opensessionrsp,
  decode_opensessionrsp opensessionrsp_zero p1 = Ok rsp -> os_tag rsp <> 0 -> new_session o s random sc1 sc2 sc3 = (sent1, inr (ETag 1)).
Proof. exact osr_bad_tag. Qed.
(* a non-OK status in the Open Session Response *)
Theorem C02_osr_bad_status :
  forall (o : session_opts) (s : suite) (random : bytes) (sc1 sc2 sc3 : list (option bytes)) (sent1 : list bytes) (p1 : bytes),
  exchange 16 (ser_opensessionreq (open_request o s) []) sc1 1 = (sent1, inl p1) ->
  forall rsp : opensessionrsp,
  decode_opensessionrsp opensessionrsp_zero p1 = Ok rsp ->
  os_tag rsp = 0 -> os_status rsp <> 0 -> new_session o s random sc1 sc2 sc3 = (sent1, inr (EStatus 1)).
Proof. exact osr_bad_status. Qed.
(* an undecodable (e.g. truncated) RAKP Message 2 *)
Theorem C02_rakp2_undecodable :
  forall (o : session_opts) (s : suite) (random : bytes) (sc1 sc2 sc3 : list (option bytes)) (sent1 : list bytes) (p1 : bytes),
  exchange 16 (ser_opensessionreq (open_request o s) []) sc1 1 = (sent1, inl p1) ->
  forall rsp : opensessionrsp,
  decode_opensessionrsp opensessionrsp_zero p1 = Ok rsp ->
  os_tag rsp = 0 ->
  os_status rsp = 0 ->
  suite_eqb {| su_auth := ap_alg (os_auth rsp); su_integ := ap_alg (os_integ rsp); su_conf := ap_alg (os_conf rsp) |} s = true ->
  forall (sent2 : list bytes) (p2 : bytes),
  exchange 18 (ser_rakp1 (rakp1_request o rsp random) []) sc2 2 = (sent2, inl p2) ->
  decode_rakp2 rakp2_zero p2 = Err -> new_session o s random sc1 sc2 sc3 = (sent1 ++ sent2, inr (EDecode 2)).
Proof. exact rakp2_undecodable. Qed.
(* a mismatched tag in RAKP Message 2 *)
Theorem C02_rakp2_bad_tag :
  forall (o : session_opts) (s : suite) (random : bytes) (sc1 sc2 sc3 : list (option bytes)) (sent1 : list bytes) (p1 : bytes),
  exchange 16 (ser_opensessionreq (open_request o s) []) sc1 1 = (sent1, inl p1) ->
  forall rsp : opensessionrsp,
  decode_opensessionrsp opensessionrsp_zero p1 = Ok rsp ->
  os_tag rsp = 0 ->
  os_status rsp = 0 ->
  suite_eqb {| su_auth := ap_alg (os_auth rsp); su_integ := ap_alg (os_integ rsp); su_conf := ap_alg (os_conf rsp) |} s = true ->
  forall (sent2 : list bytes) (p2 : bytes),
  exchange 18 (ser_rakp1 (rakp1_request o rsp random) []) sc2 2 = (sent2, inl p2) ->
  forall m2 : rakp2, decode_rakp2 rakp2_zero p2 = Ok m2 -> r2_tag m2 <> 0 -> new_session o s random sc1 sc2 sc3 = (sent1 ++ sent2, inr (ETag 2)).
Proof. exact rakp2_bad_tag. Qed.
(* a non-OK status in RAKP Message 2 *)
Theorem C02_rakp2_bad_status :
  forall (o : session_opts) (s : suite) (random : bytes) (sc1 sc2 sc3 : list (option bytes)) (sent1 : list bytes) (p1 : bytes),
  exchange 16 (ser_opensessionreq (open_request o s) []) sc1 1 = (sent1, inl p1) ->
  forall rsp : opensessionrsp,
  decode_opensessionrsp opensessionrsp_zero p1 = Ok rsp ->
  os_tag rsp = 0 ->
  os_status rsp = 0 ->
  suite_eqb {| su_auth := ap_alg (os_auth rsp); su_integ := ap_alg (os_integ rsp); su_conf := ap_alg (os_conf rsp) |} s = true ->
  forall (sent2 : list bytes) (p2 : bytes),
  exchange 18 (ser_rakp1 (rakp1_request o rsp random) []) sc2 2 = (sent2, inl p2) ->
  forall m2 : rakp2,
  decode_rakp2 rakp2_zero p2 = Ok m2 ->
  r2_tag m2 = 0 -> r2_status m2 <> 0 -> new_session o s random sc1 sc2 sc3 = (sent1 ++ sent2, inr (EStatus 2)).
Proof. exact rakp2_bad_status. Qed.
(* a RAKP 2 code that is not the keyed hash of the exchanged values: exactly the incorrect-password error, and RAKP 3 is never sent *)
Theorem C02_rakp2_wrong_code :
  forall (o : session_opts) (s : suite) (random : bytes) (sc1 sc2 sc3 : list (option bytes)) (sent1 : list bytes) (p1 : bytes),
  exchange 16 (ser_opensessionreq (open_request o s) []) sc1 1 = (sent1, inl p1) ->
  forall rsp : opensessionrsp,
  decode_opensessionrsp opensessionrsp_zero p1 = Ok rsp ->
  os_tag rsp = 0 ->
  os_status rsp = 0 ->
  suite_eqb {| su_auth := ap_alg (os_auth rsp); su_integ := ap_alg (os_integ rsp); su_conf := ap_alg (os_conf rsp) |} s = true ->
  forall (sent2 : list bytes) (p2 : bytes),
  exchange 18 (ser_rakp1 (rakp1_request o rsp random) []) sc2 2 = (sent2, inl p2) ->
  forall m2 : rakp2,
  decode_rakp2 rakp2_zero p2 = Ok m2 ->
  r2_tag m2 = 0 ->
  r2_status m2 = 0 ->
  forall (h : N) (icvlen : nat),
  auth_params (ap_alg (os_auth rsp)) = Some (h, icvlen) ->
  r2_authcode m2 <> hmac_alg h (so_password o) (rakp2_authcode_input (rakp1_request o rsp random) m2) ->
  new_session o s random sc1 sc2 sc3 = (sent1 ++ sent2, inr EIncorrectPassword).
Proof. exact rakp2_wrong_code. Qed.
(* an undecodable (e.g. truncated) RAKP Message 4 *)
Theorem C02_rakp4_undecodable :
  forall (o : session_opts) (s : suite) (random : bytes) (sc1 sc2 sc3 : list (option bytes)) (sent1 : list bytes) (p1 : bytes),
  exchange 16 (ser_opensessionreq (open_request o s) []) sc1 1 = (sent1, inl p1) ->
  forall rsp : opensessionrsp,
  decode_opensessionrsp opensessionrsp_zero p1 = Ok rsp ->
  os_tag rsp = 0 ->
  os_status rsp = 0 ->
  suite_eqb {| su_auth := ap_alg (os_auth rsp); su_integ := ap_alg (os_integ rsp); su_conf := ap_alg (os_conf rsp) |} s = true ->
  forall (sent2 : list bytes) (p2 : bytes),
  exchange 18 (ser_rakp1 (rakp1_request o rsp random) []) sc2 2 = (sent2, inl p2) ->
  forall m2 : rakp2,
  decode_rakp2 rakp2_zero p2 = Ok m2 ->
  r2_tag m2 = 0 ->
  r2_status m2 = 0 ->
  forall (h : N) (icvlen : nat),
  auth_params (ap_alg (os_auth rsp)) = Some (h, icvlen) ->
  r2_authcode m2 = hmac_alg h (so_password o) (rakp2_authcode_input (rakp1_request o rsp random) m2) ->
  forall (sent3 : list bytes) (p3 : bytes),
  exchange 20
    (ser_rakp3
       {|
         r3_tag := 0;
         r3_status := 0;
         r3_bmc_id := os_bmc_id rsp;
         r3_authcode := hmac_alg h (so_password o) (rakp3_authcode_input (rakp1_request o rsp random) m2)
       |} []) sc3 3 = (sent3, inl p3) ->
  decode_rakp4 rakp4_zero p3 = Err -> new_session o s random sc1 sc2 sc3 = (sent1 ++ sent2 ++ sent3, inr (EDecode 3)).
Proof. exact rakp4_undecodable. Qed.
(* a mismatched tag in RAKP Message 4 *)
Theorem C02_rakp4_bad_tag :
  forall (o : session_opts) (s : suite) (random : bytes) (sc1 sc2 sc3 : list (option bytes)) (sent1 : list bytes) (p1 : bytes),
  exchange 16 (ser_opensessionreq (open_request o s) []) sc1 1 = (sent1, inl p1) ->
  forall rsp : opensessionrsp,
  decode_opensessionrsp opensessionrsp_zero p1 = Ok rsp ->
  os_tag rsp = 0 ->
  os_status rsp = 0 ->
  suite_eqb {| su_auth := ap_alg (os_auth rsp); su_integ := ap_alg (os_integ rsp); su_conf := ap_alg (os_conf rsp) |} s = true ->
  forall (sent2 : list bytes) (p2 : bytes),
  exchange 18 (ser_rakp1 (rakp1_request o rsp random) []) sc2 2 = (sent2, inl p2) ->
  forall m2 : rakp2,
  decode_rakp2 rakp2_zero p2 = Ok m2 ->
  r2_tag m2 = 0 ->
  r2_status m2 = 0 ->
  forall (h : N) (icvlen : nat),
  auth_params (ap_alg (os_auth rsp)) = Some (h, icvlen) ->
  r2_authcode m2 = hmac_alg h (so_password o) (rakp2_authcode_input (rakp1_request o rsp random) m2) ->
  forall (sent3 : list bytes) (p3 : bytes),
  exchange 20
    (ser_rakp3
       {|
         r3_tag := 0;
         r3_status := 0;
         r3_bmc_id := os_bmc_id rsp;
         r3_authcode := hmac_alg h (so_password o) (rakp3_authcode_input (rakp1_request o rsp random) m2)
       |} []) sc3 3 = (sent3, inl p3) ->
  forall m4 : rakp4,
  decode_rakp4 rakp4_zero p3 = Ok m4 -> r4_tag m4 <> 0 -> new_session o s random sc1 sc2 sc3 = (sent1 ++ sent2 ++ sent3, inr (ETag 3)).
Proof. exact rakp4_bad_tag. Qed.
(* a non-OK status in RAKP Message 4 *)
Theorem C02_rakp4_bad_status :
  forall (o : session_opts) (s : suite) (random : bytes) (sc1 sc2 sc3 : list (option bytes)) (sent1 : list bytes) (p1 : bytes),
  exchange 16 (ser_opensessionreq (open_request o s) []) sc1 1 = (sent1, inl p1) ->
  forall rsp : opensessionrsp,
  decode_opensessionrsp opensessionrsp_zero p1 = Ok rsp ->
  os_tag rsp = 0 ->
  os_status rsp = 0 ->
  suite_eqb {| su_auth := ap_alg (os_auth rsp); su_integ := ap_alg (os_integ rsp); su_conf := ap_alg (os_conf rsp) |} s = true ->
  forall (sent2 : list bytes) (p2 : bytes),
  exchange 18 (ser_rakp1 (rakp1_request o rsp random) []) sc2 2 = (sent2, inl p2) ->
  forall m2 : rakp2,
  decode_rakp2 rakp2_zero p2 = Ok m2 ->
  r2_tag m2 = 0 ->
  r2_status m2 = 0 ->
  forall (h : N) (icvlen : nat),
  auth_params (ap_alg (os_auth rsp)) = Some (h, icvlen) ->
  r2_authcode m2 = hmac_alg h (so_password o) (rakp2_authcode_input (rakp1_request o rsp random) m2) ->
  forall (sent3 : list bytes) (p3 : bytes),
  exchange 20
    (ser_rakp3
       {|
         r3_tag := 0;
         r3_status := 0;
         r3_bmc_id := os_bmc_id rsp;
         r3_authcode := hmac_alg h (so_password o) (rakp3_authcode_input (rakp1_request o rsp random) m2)
       |} []) sc3 3 = (sent3, inl p3) ->
  forall m4 : rakp4,
  decode_rakp4 rakp4_zero p3 = Ok m4 ->
  r4_tag m4 = 0 -> r4_status m4 <> 0 -> new_session o s random sc1 sc2 sc3 = (sent1 ++ sent2 ++ sent3, inr (EStatus 3)).
Proof. exact rakp4_bad_status. Qed.
(* an ICV that is not the (truncated) keyed hash under the SIK *)
Theorem C02_rakp4_wrong_icv :
  forall (o : session_opts) (s : suite) (random : bytes) (sc1 sc2 sc3 : list (option bytes)) (sent1 : list bytes) (p1 : bytes),
  exchange 16 (ser_opensessionreq (open_request o s) []) sc1 1 = (sent1, inl p1) ->
  forall rsp : opensessionrsp,
  decode_opensessionrsp opensessionrsp_zero p1 = Ok rsp ->
  os_tag rsp = 0 ->
  os_status rsp = 0 ->
  suite_eqb {| su_auth := ap_alg (os_auth rsp); su_integ := ap_alg (os_integ rsp); su_conf := ap_alg (os_conf rsp) |} s = true ->
  forall (sent2 : list bytes) (p2 : bytes),
  exchange 18 (ser_rakp1 (rakp1_request o rsp random) []) sc2 2 = (sent2, inl p2) ->
  forall m2 : rakp2,
  decode_rakp2 rakp2_zero p2 = Ok m2 ->
  r2_tag m2 = 0 ->
  r2_status m2 = 0 ->
  forall (h : N) (icvlen : nat),
  auth_params (ap_alg (os_auth rsp)) = Some (h, icvlen) ->
  r2_authcode m2 = hmac_alg h (so_password o) (rakp2_authcode_input (rakp1_request o rsp random) m2) ->
  forall (sent3 : list bytes) (p3 : bytes),
  exchange 20
    (ser_rakp3
       {|
         r3_tag := 0;
         r3_status := 0;
         r3_bmc_id := os_bmc_id rsp;
         r3_authcode := hmac_alg h (so_password o) (rakp3_authcode_input (rakp1_request o rsp random) m2)
       |} []) sc3 3 = (sent3, inl p3) ->
  forall m4 : rakp4,
  decode_rakp4 rakp4_zero p3 = Ok m4 ->
  r4_tag m4 = 0 ->
  r4_status m4 = 0 ->
  let sik := hmac_alg h (if (length (so_kg o) =? 0)%nat then so_password o else so_kg o) (sik_input (rakp1_request o rsp random) m2) in
  r4_icv m4 <> icv_of h icvlen sik (rakp1_request o rsp random) m2 -> new_session o s random sc1 sc2 sc3 = (sent1 ++ sent2 ++ sent3, inr EICV).
Proof. exact rakp4_wrong_icv. Qed.

(* non-vacuity is C01 (a conforming BMC does get a session); the hashed byte strings, in the code's order *)
Example C02_rakp2_input_layout : forall r1 r2,
  rakp2_authcode_input r1 r2 =
  put_le32 (r2_console_id r2) ++ put_le32 (r1_bmc_id r1) ++ r1_random r1 ++ r2_random r2 ++ r2_guid r2 ++
  [hashed_role r1; u8 (N.of_nat (length (r1_username r1)))] ++ r1_username r1.
Proof. reflexivity. Qed.
