(* C02 — no session unless the BMC proves knowledge of the password. *)
From BMC Require Import Base Prim Layers Layers2 Serialize Packet Conn Hmac Handshake HandshakeProofs.

(* whatever was received in the three exchanges (any scripts: retransmissions, garbage, truncations ...), if a
   session is returned then: all three replies decoded, with tag 0 and status OK; the RAKP 2 code received IS the
   HMAC under the caller's password of SID_M | SID_C | R_M | R_C | GUID_C | Role | ULen | UName built from the
   RECEIVED fields and what the console sent; the RAKP 4 ICV received IS the (truncated) HMAC under the SIK -
   itself keyed with KG, or the password when no KG is given - of R_M | SID_C | GUID_C *)
Theorem C02_sound : forall o s random sc1 sc2 sc3 sent e,
  new_session o s random sc1 sc2 sc3 = (sent, inl e) ->
  exists rsp m2 m4 h icvlen b1 p1 b2 p2 b3 p3,
    (In (Some b1) sc1 /\ payload_verdict b1 = PAccept p1 /\ decode_opensessionrsp opensessionrsp_zero p1 = Ok rsp) /\
    (In (Some b2) sc2 /\ payload_verdict b2 = PAccept p2 /\ decode_rakp2 rakp2_zero p2 = Ok m2) /\
    (In (Some b3) sc3 /\ payload_verdict b3 = PAccept p3 /\ decode_rakp4 rakp4_zero p3 = Ok m4) /\
    (os_tag rsp = 0 /\ os_status rsp = 0) /\
    (ap_alg (os_auth rsp) = su_auth s /\ ap_alg (os_integ rsp) = su_integ s /\ ap_alg (os_conf rsp) = su_conf s) /\
    (r2_tag m2 = 0 /\ r2_status m2 = 0) /\ (r4_tag m4 = 0 /\ r4_status m4 = 0) /\
    auth_params (su_auth s) = Some (h, icvlen) /\
    r2_authcode m2 = hmac_alg h (so_password o) (rakp2_authcode_input (rakp1_request o rsp random) m2) /\
    es_sik e = hmac_alg h (if Nat.eqb (length (so_kg o)) 0 then so_password o else so_kg o)
                          (sik_input (rakp1_request o rsp random) m2) /\
    r4_icv m4 = icv_of h icvlen (es_sik e) (rakp1_request o rsp random) m2 /\
    (es_k1 e = hmac_alg h (es_sik e) (k_const 1) /\ es_k2 e = hmac_alg h (es_sik e) (k_const 2)) /\
    (es_local_id e = os_console_id rsp /\ es_remote_id e = os_bmc_id rsp) /\
    (es_suite e = s /\ su_conf s = 1 /\ su_integ s <> 0).
Proof. exact new_session_ok_inv. Qed.

(* non-vacuity is C01 (a conforming BMC does get a session); the hashed byte strings, in the code's order *)
Example C02_rakp2_input_layout : forall r1 r2,
  rakp2_authcode_input r1 r2 =
  put_le32 (r2_console_id r2) ++ put_le32 (r1_bmc_id r1) ++ r1_random r1 ++ r2_random r2 ++ r2_guid r2 ++
  [hashed_role r1; u8 (N.of_nat (length (r1_username r1)))] ++ r1_username r1.
Proof. reflexivity. Qed.
