(* TieBase.v — shared header of the tie files: BMCGen.Generated is rewritten from /repo by /verif/gen on every run;
   the tie files compare it with what the model and the specification side were written against.  They are kept
   separate so that a change to one table only stops the property files that depend on that table. *)
From Coq Require Import List NArith String Bool.

From BMCGen Require Generated.
Module G := BMCGen.Generated.
