(* TieLin.v — linearisation code -> Go function (pkg/ipmi/linearisation.go), as the source says now *)
From Coq Require Import List NArith String Bool.
Import ListNotations.
From BMC Require Import Base Prim.
From BMCProps Require Export TieBase.
Local Open Scope N_scope.
(* linearisation code -> Go function; the meaning of each Go function is the 11-row table of the specification
   (36.3): ln, log10, log2, e^x, 10^x, 2^x, 1/x, x^2, x^3, sqrt, cube root *)
Lemma tie_linearisers :
  G.linearisers = [(1, "LineariserFunc math Log"); (2, "LineariserFunc math Log10"); (3, "LineariserFunc math Log2");
                   (4, "LineariserFunc math Exp"); (5, "LineariserFunc f float64 float64 math Pow 10 f");
                   (6, "LineariserFunc math Exp2"); (7, "LineariserFunc f float64 float64 math Pow f - 1");
                   (8, "LineariserFunc f float64 float64 math Pow f 2"); (9, "LineariserFunc f float64 float64 math Pow f 3");
                   (10, "LineariserFunc math Sqrt"); (11, "LineariserFunc f float64 float64 math Cbrt f")]%string
  /\ G.LinearisationLinear = 0 /\ G.LinearisationNonLinear = 12.
Proof. repeat split. Qed.
