(* Tie.v — all tie files together (for interactive use; property files import only the ones they rely on) *)
From BMCProps Require Export TieBase TieOps TieCrypto TieSuites TieConn TiePrim TieLin TieProc TieFootprint.
