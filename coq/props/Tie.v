(* Tie.v — the constants and tables the model and the specification side were
   written against, compared with what /repo says *now* (BMCGen.Generated is
   regenerated from the source by /verif/gen on every run).  Every lemma is
   closed by computation; when a table in the code changes, the lemma about it
   stops compiling and with it every property file that depends on it. *)
From Coq Require Import List NArith String Bool.
Import ListNotations.
From BMCGen Require Generated.
From BMC Require Import Base Prim Layers Layers2 Serialize SpecRequests Packet Conn Handshake Hmac Proc.
Open Scope N_scope.

Module G := BMCGen.Generated.

Definition op_lookup (name : string) : option (N * N * N * N) :=
  match find (fun e => String.eqb (fst e) name) G.operations with Some e => Some (snd e) | None => None end.
Definition cmd_op (cmd : string) : option (N * N * N * N) :=
  match find (fun e => String.eqb (fst e) cmd) G.command_operation with
  | Some e => op_lookup (snd e) | None => None end.

(* the code's command -> (NetFn, body code, enterprise, command) equals the specification's command table *)
Definition spec_row (c : SpecParse.command) : option (N * N * N * N) :=
  let '(fn, cmd, body) := SpecParse.command_code c in
  Some (fn, match body with Some b => b | None => 0 end, 0, cmd).
Definition code_name (c : SpecParse.command) : string :=
  match c with
  | SpecParse.CGetChassisStatus => "GetChassisStatusCmd" | SpecParse.CChassisControl => "ChassisControlCmd"
  | SpecParse.CGetDeviceID => "GetDeviceIDCmd" | SpecParse.CGetSystemGUID => "GetSystemGUIDCmd"
  | SpecParse.CGetChannelAuthCaps => "GetChannelAuthenticationCapabilitiesCmd"
  | SpecParse.CSetSessionPriv => "SetSessionPrivilegeLevelCmd" | SpecParse.CCloseSession => "CloseSessionCmd"
  | SpecParse.CGetSDRRepoInfo => "GetSDRRepositoryInfoCmd" | SpecParse.CReserveSDRRepo => "ReserveSDRRepositoryCmd"
  | SpecParse.CGetSDR => "GetSDRCmd" | SpecParse.CGetSensorReading => "GetSensorReadingCmd"
  | SpecParse.CGetSessionInfo => "GetSessionInfoCmd" | SpecParse.CGetChannelCipherSuites => "GetChannelCipherSuitesCmd"
  | SpecParse.CDCMICaps => "getDCMICapabilitiesInfoCmd" | SpecParse.CDCMIPowerReading => "GetPowerReadingCmd"
  | SpecParse.CDCMISensorInfo => "GetDCMISensorInfoCmd"
  end.
Definition all_commands : list SpecParse.command :=
  [SpecParse.CGetChassisStatus; SpecParse.CChassisControl; SpecParse.CGetDeviceID; SpecParse.CGetSystemGUID;
   SpecParse.CGetChannelAuthCaps; SpecParse.CSetSessionPriv; SpecParse.CCloseSession; SpecParse.CGetSDRRepoInfo;
   SpecParse.CReserveSDRRepo; SpecParse.CGetSDR; SpecParse.CGetSensorReading; SpecParse.CGetSessionInfo;
   SpecParse.CGetChannelCipherSuites; SpecParse.CDCMICaps; SpecParse.CDCMIPowerReading; SpecParse.CDCMISensorInfo].
Definition opt_eqb (a b : option (N * N * N * N)) : bool :=
  match a, b with
  | Some (a1, a2, a3, a4), Some (b1, b2, b3, b4) => (a1 =? b1) && (a2 =? b2) && (a3 =? b3) && (a4 =? b4)
  | _, _ => false
  end.
Lemma tie_operation_table :
  forallb (fun c => opt_eqb (cmd_op (code_name c)) (spec_row c)) all_commands = true.
Proof. vm_compute. reflexivity. Qed.
Lemma all_commands_complete : forall c, In c all_commands.
Proof. destruct c; simpl; tauto. Qed.

(* every response operation is the request's with NetFn + 1 (what validateResponseOperation relies on) *)
Lemma tie_response_operations :
  forallb (fun e => let '(name, (fn, body, ent, cmd)) := e in
                    if Nat.eqb (String.length name) 0 then true else
                    match op_lookup (String.append (String.substring 0 (String.length name - 3) name) "Rsp") with
                    | Some (fn', body', ent', cmd') =>
                        if (fn mod 2 =? 0) then (fn' =? fn + 1) && (cmd' =? cmd) && (body' =? body) && (ent' =? ent) else true
                    | None => true
                    end) G.operations = true.
Proof. vm_compute. reflexivity. Qed.

Lemma tie_temporary_codes : forall c, is_temporary c = existsb (N.eqb c) G.temporary_codes.
Proof. intros c. unfold is_temporary. cbn. rewrite orb_false_r. reflexivity. Qed.

Lemma tie_k_constant : forall n, k_const n = repeat (u8 n) (N.to_nat G.kConstantLength).
Proof. reflexivity. Qed.

Lemma tie_default_suites :
  map (fun s => (su_auth s, su_integ s, su_conf s)) default_suites = G.defaultCipherSuites.
Proof. reflexivity. Qed.

Lemma tie_console_session_id : forall o s, oq_id (open_request o s) = G.console_session_id.
Proof. reflexivity. Qed.

Lemma tie_literals :
  G.sessionless_literals = (rm_version rmcp_out, 1) /\ G.session_literals = (rm_version rmcp_out, 1) /\
  (forall o lun, m_sequence (request_message o lun) = 1) /\
  (forall o lun, m_remote_addr (request_message o lun) = 2 * G.SlaveAddressBMC) /\
  (forall o lun, m_local_addr (request_message o lun) = 2 * G.SoftwareIDRemoteConsole1 + 1).
Proof. repeat split. Qed.

(* algorithm tables (authenticator.go, hasher.go, confidentiality.go): hash and truncation per algorithm code *)
Lemma tie_auth_table :
  G.auth_table = [([1], "sha1.New 12 nil"); ([3], "sha256.New 16 nil"); ([2], "md5.New nil"); ([], "nil fmt.Errorf")]%string
  /\ auth_params 1 = Some (1, 12%nat) /\ auth_params 3 = Some (3, 16%nat) /\ auth_params 2 = Some (2, 0%nat).
Proof. repeat split. Qed.
Lemma tie_integrity_table :
  G.integrity_table = [([0], "nil fmt.Errorf"); ([1], "hmac.New sha1.New g.K 1 12 nil"); ([2], "hmac.New md5.New g.K 1 nil");
                       ([4], "hmac.New sha256.New g.K 1 16 nil"); ([], "nil fmt.Errorf")]%string
  /\ integrity_params 1 = Some (Some (1, 12%nat)) /\ integrity_params 2 = Some (Some (2, 16%nat))
  /\ integrity_params 4 = Some (Some (3, 16%nat)).
Proof. repeat split. Qed.
Lemma tie_confidentiality_table :
  G.confidentiality_table = [([0], "nil fmt.Errorf"); ([1], "16 g.K 2 ipmi.NewAES128CBC"); ([], "nil fmt.Errorf")]%string.
Proof. reflexivity. Qed.

Lemma tie_bcd_plus_runes : G.bcdPlusRunes = Impl.bcd_plus_runes.
Proof. reflexivity. Qed.
Lemma tie_seconds_multiplier :
  G.seconds_multiplier_table = [([0], "1"); ([1], "60"); ([2], "60 60"); ([], "60 60 24")]%string.
Proof. reflexivity. Qed.
Lemma tie_analog_parsers :
  G.analog_parsers = [(0, "AnalogDataFormatParserFunc parseAnalogDataFormatUnsigned");
                      (1, "AnalogDataFormatParserFunc parseAnalogDataFormatOnesComplement");
                      (2, "AnalogDataFormatParserFunc parseAnalogDataFormatTwosComplement")]%string.
Proof. reflexivity. Qed.
Lemma tie_string_decoders :
  G.string_decoders = [(0, "StringDecoderFunc decode8BitAsciiLatin1"); (1, "StringDecoderFunc decodeBCDPlus");
                       (2, "StringDecoderFunc decodePacked6BitAscii"); (3, "StringDecoderFunc decode8BitAsciiLatin1")]%string.
Proof. reflexivity. Qed.
(* linearisation code -> Go function; the meaning of each Go function is the 11-row table of the specification
   (36.3): ln, log10, log2, e^x, 10^x, 2^x, 1/x, x^2, x^3, sqrt, cube root *)
Lemma tie_linearisers :
  G.linearisers = [(1, "LineariserFunc math Log"); (2, "LineariserFunc math Log10"); (3, "LineariserFunc math Log2");
                   (4, "LineariserFunc math Exp"); (5, "LineariserFunc f float64 float64 math Pow 10 f");
                   (6, "LineariserFunc math Exp2"); (7, "LineariserFunc f float64 float64 math Pow f - 1");
                   (8, "LineariserFunc f float64 float64 math Pow f 2"); (9, "LineariserFunc f float64 float64 math Pow f 3");
                   (10, "LineariserFunc math Sqrt"); (11, "LineariserFunc f float64 float64 math Cbrt f")]%string
  /\ G.LinearisationLinear = 0 /\ G.LinearisationNonLinear = 12.
Proof. repeat split. Qed.
Lemma tie_entities : G.ipmiSensorEntityIDs = ipmi_entities /\ G.dcmiSensorEntityIDs = dcmi_entities.
Proof. split; reflexivity. Qed.
Lemma tie_sdr_constants : G.sdrHeaderLength = 5 /\ G.sdrMaxLength = 64 /\ G.RecordTypeFullSensor = 1 /\
                          G.RecordIDFirst = 0 /\ G.RecordIDLast = 0xffff.
Proof. repeat split. Qed.
Lemma tie_payload_types :
  (G.PayloadTypeIPMI, G.PayloadTypeOEM, G.PayloadTypeOpenSessionReq, G.PayloadTypeRAKPMessage1, G.PayloadTypeRAKPMessage3)
  = (0, 2, 0x10, 0x12, 0x14).
Proof. reflexivity. Qed.
Lemma tie_misc :
  G.NetworkFunctionGroupReq = 0x2c /\ G.NetworkFunctionGroupRsp = 0x2d /\ G.NetworkFunctionOEMReq = 0x2e /\
  G.NetworkFunctionOEMRsp = 0x2f /\ G.BodyCodeDCMI = 0xdc /\ G.StatusCodeOK = 0 /\ G.CompletionCodeNormal = 0 /\
  G.SessionIndexHandle = 0xfe /\ G.SessionIndexID = 0xff /\ G.ChannelPresentInterface = 0xe /\
  G.PrivilegeLevelCallback = 1 /\ G.AuthenticationTypeRMCPPlus = 6 /\ G.SystemPowerStatisticsModeEnhanced = 2 /\
  G.SensorTypeTemperature = 1.
Proof. repeat split. Qed.

(* ---- footprint (C19): the only writes to package-level state outside declarations are
   (a) addresses of read-only Operation / PayloadDescriptor values handed out by accessor methods, which the
       library only dereferences, and (b) the map store of RegisterOEMPayloadDescriptor (an init-time registration API) *)
Definition allowed_write (w : string * string * string * string) : bool :=
  let '(pkg, v, fn, kind) := w in
  (String.eqb kind "addr" &&
     (String.prefix "Operation" v || String.prefix "operation" v || String.prefix "PayloadDescriptor" v) &&
     (String.eqb (String.substring (String.length fn - 10) 10 fn) ".Operation"
      || String.eqb (String.substring (String.length fn - 11) 11 fn) ".Descriptor"))
  || (String.eqb v "payloadLayerTypes" && String.eqb fn "RegisterOEMPayloadDescriptor").
(* the package-level variables themselves: a new one (a shared buffer, a pool, a cache) is a change to be looked at *)
Definition expected_package_vars : list string := [
  "bmc.ErrIncorrectPassword";
  "bmc.ErrNoSupportedCipherSuite";
  "bmc.ErrSensorReadingUnavailable";
  "bmc.ErrSensorScanningDisabled";
  "bmc.commandAttempts";
  "bmc.commandDuration";
  "bmc.commandFailures";
  "bmc.commandResponses";
  "bmc.commandRetries";
  "bmc.connectionOpenAttempts";
  "bmc.connectionOpenFailures";
  "bmc.connectionsOpen";
  "bmc.defaultCipherSuites";
  "bmc.errRetryableCode";
  "bmc.errSDRRepositoryModified";
  "bmc.namespace";
  "bmc.serializeOptions";
  "bmc.sessionOpenAttempts";
  "bmc.sessionOpenFailures";
  "bmc.sessionsOpen";
  "bmc.v2ConnectionOpenAttempts";
  "bmc.v2ConnectionOpenFailures";
  "bmc.v2ConnectionsOpen";
  "dcmi.dcmiSensorEntityIDs";
  "dcmi.ipmiSensorEntityIDs";
  "dcmi.layerTypeGetDCMICapabilitiesInfoEnhancedSystemPowerStatisticsAttrsRsp";
  "dcmi.layerTypeGetDCMICapabilitiesInfoManageabilityAccessAttrsRsp";
  "dcmi.layerTypeGetDCMICapabilitiesInfoMandatoryPlatformAttrsRsp";
  "dcmi.layerTypeGetDCMICapabilitiesInfoOptionalPlatformAttrsRsp";
  "dcmi.layerTypeGetDCMICapabilitiesInfoReq";
  "dcmi.layerTypeGetDCMICapabilitiesInfoSupportedCapabilitiesRsp";
  "dcmi.layerTypeGetDCMISensorInfoReq";
  "dcmi.layerTypeGetDCMISensorInfoRsp";
  "dcmi.layerTypeGetPowerReadingReq";
  "dcmi.layerTypeGetPowerReadingRsp";
  "dcmi.operationGetDCMICapabilitiesInfoReq";
  "dcmi.operationGetDCMISensorInfoReq";
  "dcmi.operationGetPowerReadingReq";
  "iana.enterpriseOrganisations";
  "ipmi.CipherSuite17";
  "ipmi.CipherSuite3";
  "ipmi.ErrNotLinearised";
  "ipmi.LayerTypeChassisControlReq";
  "ipmi.LayerTypeCloseSessionReq";
  "ipmi.LayerTypeFullSensorRecord";
  "ipmi.LayerTypeGetChannelAuthenticationCapabilitiesReq";
  "ipmi.LayerTypeGetChannelAuthenticationCapabilitiesRsp";
  "ipmi.LayerTypeGetChannelCipherSuitesReq";
  "ipmi.LayerTypeGetChannelCipherSuitesRsp";
  "ipmi.LayerTypeGetChassisStatusRsp";
  "ipmi.LayerTypeGetDeviceIDRsp";
  "ipmi.LayerTypeGetSDRRepositoryInfoRsp";
  "ipmi.LayerTypeGetSDRReq";
  "ipmi.LayerTypeGetSDRRsp";
  "ipmi.LayerTypeGetSensorReadingReq";
  "ipmi.LayerTypeGetSensorReadingRsp";
  "ipmi.LayerTypeGetSessionInfoReq";
  "ipmi.LayerTypeGetSessionInfoRsp";
  "ipmi.LayerTypeGetSystemGUIDRsp";
  "ipmi.LayerTypeMessage";
  "ipmi.LayerTypeOpenSessionReq";
  "ipmi.LayerTypeOpenSessionRsp";
  "ipmi.LayerTypeRAKPMessage1";
  "ipmi.LayerTypeRAKPMessage2";
  "ipmi.LayerTypeRAKPMessage3";
  "ipmi.LayerTypeRAKPMessage4";
  "ipmi.LayerTypeReserveSDRRepositoryRsp";
  "ipmi.LayerTypeSDR";
  "ipmi.LayerTypeSessionSelector";
  "ipmi.LayerTypeSetSessionPrivilegeLevelReq";
  "ipmi.LayerTypeSetSessionPrivilegeLevelRsp";
  "ipmi.LayerTypeV1Session";
  "ipmi.LayerTypeV2Session";
  "ipmi.OperationChassisControlReq";
  "ipmi.OperationCloseSessionReq";
  "ipmi.OperationGetChannelAuthenticationCapabilitiesReq";
  "ipmi.OperationGetChannelAuthenticationCapabilitiesRsp";
  "ipmi.OperationGetChannelCipherSuitesReq";
  "ipmi.OperationGetChannelCipherSuitesRsp";
  "ipmi.OperationGetChassisStatusReq";
  "ipmi.OperationGetChassisStatusRsp";
  "ipmi.OperationGetDeviceIDReq";
  "ipmi.OperationGetDeviceIDRsp";
  "ipmi.OperationGetSDRRepositoryInfoReq";
  "ipmi.OperationGetSDRRepositoryInfoRsp";
  "ipmi.OperationGetSDRReq";
  "ipmi.OperationGetSDRRsp";
  "ipmi.OperationGetSensorReadingReq";
  "ipmi.OperationGetSensorReadingRsp";
  "ipmi.OperationGetSessionInfoReq";
  "ipmi.OperationGetSessionInfoRsp";
  "ipmi.OperationGetSystemGUIDReq";
  "ipmi.OperationGetSystemGUIDRsp";
  "ipmi.OperationReserveSDRRepositoryReq";
  "ipmi.OperationReserveSDRRepositoryRsp";
  "ipmi.OperationSetSessionPrivilegeLevelReq";
  "ipmi.OperationSetSessionPrivilegeLevelRsp";
  "ipmi.PayloadDescriptorIPMI";
  "ipmi.PayloadDescriptorOpenSessionReq";
  "ipmi.PayloadDescriptorOpenSessionRsp";
  "ipmi.PayloadDescriptorRAKPMessage1";
  "ipmi.PayloadDescriptorRAKPMessage2";
  "ipmi.PayloadDescriptorRAKPMessage3";
  "ipmi.PayloadDescriptorRAKPMessage4";
  "ipmi.analogDataFormatDescriptions";
  "ipmi.analogDataFormatParsers";
  "ipmi.bcdPlusRunes";
  "ipmi.completionCodeDescriptions";
  "ipmi.entityIdDescriptions";
  "ipmi.layerTypeAES128CBC";
  "ipmi.linearisationDescriptions";
  "ipmi.linearisationLinearisers";
  "ipmi.operationLayerTypes";
  "ipmi.outputTypeDescriptions";
  "ipmi.payloadLayerTypes";
  "ipmi.payloadTypeDescriptions";
  "ipmi.rateUnitDurations";
  "ipmi.recordTypeDescriptions";
  "ipmi.recordTypeLayerTypes";
  "ipmi.sensorDirectionDescriptions";
  "ipmi.sensorTypeDescriptions";
  "ipmi.sensorUnitSymbols";
  "ipmi.statusCodeDescriptions";
  "ipmi.stringEncodingDecoders";
  "ipmi.stringEncodingDescriptions";
  "transport.namespace";
  "transport.receiveBytes";
  "transport.responseLatency";
  "transport.subsystem";
  "transport.transmitBytes"
]%string.
Lemma tie_package_vars : G.package_vars = expected_package_vars.
Proof. reflexivity. Qed.
Lemma tie_footprint : forallb allowed_write G.global_writes = true.
Proof. vm_compute. reflexivity. Qed.
