(* C18 — exported metrics account exactly for what happened. *)
From BMC Require Import Base Prim Layers Packet Conn ConnProofs Metrics.
From BMCProps Require Import TieConn.

(* inside one command: the retry closure's counters, placed as in the Go code (first-attempt flag, one
   responses increment per decoded response incl. temporary ones), satisfy: retries = transmissions - 1,
   responses = exactly the codes the loop counted, nothing else moves *)
Theorem C18_command : forall pkt o script m,
  let '(m', n) := sessionless_metered o script true m in
  n = length (lr_sent (sessionless_loop pkt o script [] [])) /\
  mt_retries m' = (mt_retries m + (n - 1))%nat /\
  (exists codes, mt_responses m' = mt_responses m ++ codes /\ lr_codes (sessionless_loop pkt o script [] []) = codes) /\
  mt_attempts m' = mt_attempts m /\ mt_failures m' = mt_failures m /\ mt_durations m' = mt_durations m.
Proof.
  intros pkt o script m. pose proof (sessionless_metered_law pkt o script true m) as H.
  destruct (sessionless_metered o script true m) as [m' n].
  destruct H as [_ [H2 [H3 [[codes [H4 H5]] [H6 [H7 H8]]]]]]. repeat split; auto.
  exists codes. split; [exact H4|]. rewrite (H5 [] []). reflexivity.
Qed.

(* over every history of dials, opens, closes and commands: the conservation laws *)
Theorem C18_conservation : forall h,
  let m := run_history h in
  mt_attempts m = cmd_names h /\ mt_failures m = cmd_failed h /\ mt_retries m = cmd_retries h /\
  mt_responses m = cmd_codes h /\ mt_durations m = length (cmd_names h) /\
  mt_sess_attempts m = count is_open h /\ mt_sess_failures m = count is_open_fail h /\
  mt_sessions_open m = (Z.of_nat (count is_open_ok h) - Z.of_nat (count is_close h))%Z /\
  mt_conn_attempts m = count is_dial h /\ mt_conn_failures m = count is_dial_fail h /\
  mt_conns_open m = (Z.of_nat (count is_dial_ok h) - Z.of_nat (count is_connclose h))%Z.
Proof. exact conservation. Qed.

Theorem C18_no_drift : forall h,
  count is_open_ok h = count is_close h -> count is_dial_ok h = count is_connclose h ->
  mt_sessions_open (run_history h) = 0%Z /\ mt_conns_open (run_history h) = 0%Z.
Proof. exact gauges_do_not_drift. Qed.

(* which codes count as temporary is what the source says now *)
Theorem C18_temporary_codes_tie : forall c, is_temporary c = existsb (N.eqb c) G.temporary_codes.
Proof. exact tie_temporary_codes. Qed.
