From BMC Require Import Base.
Theorem C18_placeholder : True. Proof. exact I. Qed.
