From BMC Require Import Base.
Theorem C08_placeholder : True. Proof. exact I. Qed.
