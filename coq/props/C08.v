(* C08 — Serialise-then-decode is the identity for two-way layers.
   [ser_X v p] = (value after SerializeTo with FixLengths/ComputeChecksums, bytes) for inner payload [p];
   [decode_X old bs] = DecodeFromBytes into a layer holding [old].  The models are run against the Go
   SerializeTo/DecodeFromBytes pairs by the C08 check.  [sign] is an arbitrary function of the signed bytes:
   the statements hold for every integrity algorithm and key.  The AES layer is stated over any block
   function pair with dec (enc b) = b on 16-byte blocks, and, with no premise about the cipher, for the concrete
   Gallina AES-128 of Aes.v under every key (AesInverse.v proves decryption inverts encryption for all keys
   and blocks; Aes.v itself is validated against FIPS-197 vectors and crypto/aes by the check). *)
From BMC Require Import Base Prim Layers Layers2 Serialize TwoWayProofs TwoWayIdem.
From BMC Require Aes AesInverse AesCbcConcrete.

(* decode ∘ serialise returns the value with its computed fields and the inner payload; serialising that
   value again gives the same bytes *)
Theorem C08_v2session : forall sign v p old v' bs,
  v2_in_range v -> N.of_nat (length p) < 65536 ->
  (v2_authenticated v = false -> v2_pad v = 0 /\ v2_signature v = []) ->
  ser_v2session sign v p = Ok (v', bs) ->
  let d := v2_set_payload v' p in
  decode_v2session sign old bs = Ok d /\ v2_payload d = p /\ ser_v2session sign d (v2_payload d) = Ok (d, bs).
Proof. exact v2session_two_way. Qed.
Theorem C08_message : forall m p old m' bs,
  msg_in_range m -> ser_message m p = Ok (m', bs) ->
  let d := m_set_payload m' p in
  decode_message old bs = Ok d /\ m_payload d = p /\ ser_message d (m_payload d) = Ok (d, bs).
Proof. exact message_two_way. Qed.
Theorem C08_v1session : forall v p old v' bs,
  v1_authtype v < 256 -> v1_sequence v < 4294967296 -> v1_id v < 4294967296 ->
  length (v1_authcode v) = 16%nat -> (v1_authtype v = 0 -> v1_authcode v = zeros 16) ->
  ser_v1session v p = Ok (v', bs) ->
  let d := v1_set_payload v' p in
  decode_v1session old bs = Ok d /\ v1_payload d = p /\ ser_v1session d (v1_payload d) = Ok (d, bs).
Proof. exact v1session_two_way. Qed.
Theorem C08_rakp1 : forall v p old bs,
  r1_tag v < 256 -> r1_bmc_id v < 4294967296 -> length (r1_random v) = 16%nat ->
  r1_maxpriv v < 16 -> (length (r1_username v) <= 16)%nat ->
  ser_rakp1 v p = Ok bs ->
  exists d, decode_rakp1 old bs = Ok d /\ d = v /\ ser_rakp1 d p = Ok bs.
Proof. exact rakp1_two_way. Qed.
Theorem C08_aes128cbc : forall enc dec : bytes -> bytes,
  (forall b, length b = 16%nat -> dec (enc b) = b) -> (forall b, length (enc b) = 16%nat) ->
  forall iv p old bs, length iv = 16%nat -> ser_aescbc enc iv p = Ok bs ->
  exists d, decode_aescbc dec old bs = Ok d /\ ae_payload d = p /\ ser_aescbc enc iv (ae_payload d) = Ok bs.
Proof. exact aes_two_way. Qed.

(* the other direction, from the wire: whatever decodes re-serialises to the same bytes *)
Theorem C08_message_from_wire : forall old bs m, all_bytes bs = true -> decode_message old bs = Ok m ->
  ser_message m (m_payload m) = Ok (m, bs).
Proof. exact message_reserialise. Qed.
Theorem C08_v1session_from_wire : forall old bs v, all_bytes bs = true -> decode_v1session old bs = Ok v ->
  v1_length v = u8 (N.of_nat (length (v1_payload v))) -> ser_v1session v (v1_payload v) = Ok (v, bs).
Proof. exact v1session_reserialise. Qed.
Theorem C08_rakp1_from_wire : forall old bs v, all_bytes bs = true ->
  nth 1 bs 0 = 0 -> nth 2 bs 0 = 0 -> nth 3 bs 0 = 0 ->
  N.land (nth 24 bs 0) 0xe0 = 0 -> nth 25 bs 0 = 0 -> nth 26 bs 0 = 0 ->
  decode_rakp1 old bs = Ok v -> ser_rakp1 v (skipn (28 + length (r1_username v)) bs) = Ok bs.
Proof. exact rakp1_reserialise. Qed.

(* an unauthenticated v1.5 packet carries no AuthCode: whatever the value held, sixteen zero bytes come back *)
Theorem C08_v1session_authcode_not_carried : forall v p old v' bs,
  v1_authtype v < 256 -> v1_sequence v < 4294967296 -> v1_id v < 4294967296 -> length (v1_authcode v) = 16%nat ->
  ser_v1session v p = Ok (v', bs) ->
  decode_v1session old bs = Ok (v1_set_authcode (v1_set_payload v' p) (if v1_authtype v =? 0 then zeros 16 else v1_authcode v)).
Proof. exact v1session_roundtrip_gen. Qed.
(* an unauthenticated v2.0 packet carries no trailer: pad and signature of the value are not transmitted *)
Theorem C08_v2session_trailer_not_carried : forall sign v p old v' bs,
  v2_in_range v -> N.of_nat (length p) < 65536 -> v2_authenticated v = false ->
  ser_v2session sign v p = Ok (v', bs) ->
  decode_v2session sign old bs = Ok (v2_clear_trailer (v2_set_payload v' p)).
Proof. exact v2session_roundtrip_unauth. Qed.
(* the pad arithmetic: the confidentiality trailer is 1,2,..,n,n with n = 15 - len mod 16, the padded
   plaintext a whole number of blocks *)
Theorem C08_aes_trailer : forall n, aes_trailer n = aes_padbytes n ++ [N.of_nat (aes_padlen n)] /\
  (aes_padlen n <= 15)%nat /\ (n + aes_padlen n + 1 = 16 * (Nat.div n 16 + 1))%nat.
Proof. intros n. split; [apply aes_trailer_eq|]. split; [apply aes_padlen_le|apply aes_padded_length]. Qed.

(* the same for AES-128 itself, every 16-byte key, IV and payload: no premise left *)
Theorem C08_aes128cbc_concrete : forall key iv p old bs,
  length key = 16%nat -> Forall (fun x => x < 256) key -> length iv = 16%nat -> Forall (fun x => x < 256) iv ->
  Forall (fun x => x < 256) p ->
  ser_aescbc (Aes.aes128_encrypt_block key) iv p = Ok bs ->
  decode_aescbc (Aes.aes128_decrypt_block key) old bs = Ok {| ae_payload := p |}.
Proof. exact AesCbcConcrete.aes128_cbc_roundtrip. Qed.
Theorem C08_aes128_block_invertible : forall key b,
  length key = 16%nat -> length b = 16%nat -> Forall (fun x => x < 256) key -> Forall (fun x => x < 256) b ->
  Aes.aes128_decrypt_block key (Aes.aes128_encrypt_block key b) = b.
Proof. exact AesInverse.aes128_decrypt_encrypt. Qed.
