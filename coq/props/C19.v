(* C19 — independent connections do not interfere (PARTIAL: data-race freedom
   in the Go memory model is observed with the race detector, not proved). *)
From Coq Require Import List Arith.
From BMC Require Import Interleave.
From BMCProps Require Import TieFootprint.

(* under every interleaving of any number of connections, each connection's final state and outputs
   (datagrams, results) are those of its solo run *)
Theorem C19_independent : forall (St Inp Out : Type) (step : St -> Inp -> St * Out * nat) sched st outs ctr i,
  let '(st', outs', _) := run St Inp Out step sched st outs ctr in
  let '(s, o, _) := solo St Inp Out step (project Inp i sched) (st i) (outs i) 0 in
  st' i = s /\ outs' i = o.
Proof. exact independent_outputs. Qed.

(* and the shared (commutative) counters end at the sum of the solo counts *)
Theorem C19_counters : forall (St Inp Out : Type) (step : St -> Inp -> St * Out * nat) sched st outs ctr ids,
  NoDup ids -> (forall e, In e sched -> In (fst e) ids) ->
  snd (run St Inp Out step sched st outs ctr) =
  ctr + sum_over ids (fun i => solo_count St Inp Out step i sched st).
Proof. exact independent_counter. Qed.

(* the premise that a step depends on nothing but its own connection: no function of the library writes a
   package-level variable (checked against the footprint regenerated from the source on this run); the
   only entries are addresses of read-only Operation / PayloadDescriptor values and the init-time
   registration API *)
(* every package-level variable is a reviewed one (error values, metric handles, read-only tables) or a new one of a
   shape that cannot hide mutable state and that nothing writes or aliases ([var_ok], TieFootprint.v) *)
Theorem C19_package_vars : forallb var_ok G.package_var_kinds = true.
Proof. exact tie_package_vars. Qed.
Theorem C19_footprint : forallb allowed_write G.global_writes = true.
Proof. exact tie_footprint. Qed.
(* and no package-level slice, map or pointer is handed - directly or through a local alias - to anything that
   could write its backing store, beyond the reviewed read-only uses *)
Theorem C19_aliases : forallb allowed_alias G.global_aliases = true.
Proof. exact tie_aliases. Qed.
(* nor does any function of package bmc write through a parameter other than its receiver - the options value and the
   preference list a caller passes in (and may share between goroutines and connections) are only read *)
Theorem C19_callers_values_only_read : G.param_writes = nil.
Proof. exact tie_param_writes. Qed.
