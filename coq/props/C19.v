From BMC Require Import Base.
Theorem C19_placeholder : True. Proof. exact I. Qed.
