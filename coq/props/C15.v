(* C15 — sensor readings are converted with the specification's formula
   (exact rational arithmetic; floating-point rounding is outside the proof
   and compared numerically by the correspondence run). *)
From Coq Require Import QArith String.
From BMC Require Import Base Prim PrimProofs Layers Proc SensorProofs.
From BMCProps Require Import TieLin.
Local Close Scope Q_scope.
Local Open Scope N_scope.

Theorem C15_formula : forall m b k1 k2 x,
  (convert_reading m b k1 k2 x == (inject_Z m * inject_Z x + inject_Z b * pow10 k1) * pow10 k2)%Q.
Proof. exact convert_formula. Qed.
Theorem C15_pow10 : forall k, (pow10 k * pow10 (- k) == 1)%Q /\ (pow10 (k + 1) == inject_Z 10 * pow10 k)%Q.
Proof. intros k. split; [apply pow10_inverse|apply pow10_succ]. Qed.

(* flags first (unavailable, then scanning disabled), else the value: x is the raw byte read in the record's
   analog format as the specification defines it, the lineariser is the record's code *)
Theorem C15_read : forall r rsp, sr_reading rsp < 256 -> new_sensor_reader r <> RNone ->
  (read_sensor r (new_sensor_reader r) rsp = Some RdUnavailable <-> sr_unavailable rsp = true) /\
  (sr_unavailable rsp = false ->
   (read_sensor r (new_sensor_reader r) rsp = Some RdScanningDisabled <-> sr_scanning rsp = false)) /\
  (sr_unavailable rsp = false -> sr_scanning rsp = true ->
   exists x, Spec.interpret (f_format r) (sr_reading rsp) = Some x /\
     read_sensor r (new_sensor_reader r) rsp =
       Some (RdValue (convert_reading (f_m r) (f_b r) (f_bexp r) (f_rexp r) x) (f_linearisation r)) /\
     (convert_reading (f_m r) (f_b r) (f_bexp r) (f_rexp r) x ==
      (inject_Z (f_m r) * inject_Z x + inject_Z (f_b r) * pow10 (f_bexp r)) * pow10 (f_rexp r))%Q).
Proof. exact read_flags. Qed.

(* no reader for non-linear sensors (code >= 12) and for records without an analog data format (format 3) *)
Theorem C15_refuse : forall r, new_sensor_reader r = RNone <-> (12 <= f_linearisation r \/ 3 <= f_format r).
Proof. exact reader_selection_none. Qed.

(* linearisation code -> Go function, as the source says now; their meaning is the specification's 11-row table *)
Theorem C15_lineariser_table_tie :
  G.linearisers = [(1, "LineariserFunc math Log"); (2, "LineariserFunc math Log10"); (3, "LineariserFunc math Log2");
                   (4, "LineariserFunc math Exp"); (5, "LineariserFunc f float64 float64 math Pow 10 f");
                   (6, "LineariserFunc math Exp2"); (7, "LineariserFunc f float64 float64 math Pow f - 1");
                   (8, "LineariserFunc f float64 float64 math Pow f 2"); (9, "LineariserFunc f float64 float64 math Pow f 3");
                   (10, "LineariserFunc math Sqrt"); (11, "LineariserFunc f float64 float64 math Cbrt f")]%string
  /\ G.LinearisationLinear = 0 /\ G.LinearisationNonLinear = 12.
Proof. exact tie_linearisers. Qed.
