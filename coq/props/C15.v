From BMC Require Import Base.
Theorem C15_placeholder : True. Proof. exact I. Qed.
