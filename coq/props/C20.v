(* C20 — primitive value conversions are correct on their entire domains.
   Statements only; proofs are in BMC.PrimProofs / BMC.StringProofs. *)
From BMC Require Import Base Prim PrimProofs StringProofs.
From BMCProps Require Import TiePrim.

(* BCD byte: tens in the high nibble, units in the low nibble *)
Theorem C20_bcd : forall b, b < 256 -> Impl.bcd_decode b = 10 * (b / 16) + b mod 16.
Proof. exact bcd_correct. Qed.

(* 8-bit one's complement *)
Theorem C20_ones : forall b, b < 256 ->
  Impl.ones b = if b <? 128 then Z.of_N b else (Z.of_N b - 255)%Z.
Proof. exact ones_correct. Qed.

(* two's complement of every width 1..16 (the wire uses 4, 8 and 10), the
   value handed over as the big-endian byte pair the code takes *)
Theorem C20_twos : forall w v, 1 <= w <= 16 -> v < 2 ^ w ->
  Impl.twos (v / 256) (v mod 256) w =
  if v <? 2 ^ (w - 1) then Z.of_N v else (Z.of_N v - Z.of_N (2 ^ w))%Z.
Proof. exact twos_correct. Qed.

(* the three analog-format parsers; no parser for any other format code *)
Theorem C20_analog : forall fmt raw, raw < 256 ->
  match Impl.analog_parser fmt with
  | Some p => Spec.interpret fmt raw = Some (p raw)
  | None => Spec.interpret fmt raw = None /\ 3 <= fmt
  end.
Proof. exact analog_parser_correct. Qed.

(* IPMI checksum: for every byte string, the unique byte making the sum 0 mod 256 *)
Theorem C20_checksum : forall data,
  (sum_bytes data + Impl.checksum data) mod 256 = 0 /\ Impl.checksum data < 256.
Proof. exact checksum_correct. Qed.
Theorem C20_checksum_unique : forall data c,
  c < 256 -> (sum_bytes data + c) mod 256 = 0 -> c = Impl.checksum data.
Proof. exact checksum_unique. Qed.

(* entity instances: system-relative 0x00..0x5F, device-relative 0x60..0x7F, exactly one *)
Theorem C20_entity : forall i, i < 128 ->
  Impl.is_system_relative i = (i <=? 0x5f) /\
  Impl.is_device_relative i = (0x60 <=? i) /\
  Impl.is_system_relative i = negb (Impl.is_device_relative i).
Proof. exact entity_split. Qed.

(* DCMI rolling-average period byte -> duration (seconds) *)
Theorem C20_rolling_duration : forall b, b < 256 ->
  Impl.rolling_duration b = (b mod 64) * Spec.unit_seconds (b / 64).
Proof. exact rolling_duration_correct. Qed.

(* duration (any whole number of seconds) -> byte: count of the unit chosen by
   magnitude, capped at 63 *)
Theorem C20_rolling_byte : forall d, Impl.rolling_byte d = Spec.rolling_byte d.
Proof. exact rolling_byte_correct. Qed.
Theorem C20_rolling_floor : forall d, d < 64 * 86400 ->
  let u := Spec.unit_seconds (Spec.rolling_unit d) in
  Impl.rolling_duration (Impl.rolling_byte d) <= d < Impl.rolling_duration (Impl.rolling_byte d) + u.
Proof. exact rolling_byte_floor. Qed.
Theorem C20_rolling_back : forall b, b < 256 ->
  (Impl.rolling_byte (Impl.rolling_duration b) = b <-> canonical_period b = true).
Proof. exact rolling_reencode. Qed.
Theorem C20_rolling_back_le : forall b, b < 256 ->
  Impl.rolling_duration (Impl.rolling_byte (Impl.rolling_duration b)) <= Impl.rolling_duration b.
Proof. exact rolling_reencode_le. Qed.

(* non-vacuity: the premises are inhabited by non-trivial values *)
Example C20_twos_example : Impl.twos 3 0xff 10 = (-1)%Z /\ Impl.twos 0 8 4 = (-8)%Z.
Proof. vm_compute. split; reflexivity. Qed.
Example C20_rolling_example : Impl.rolling_byte 7200 = 0x82 /\ Impl.rolling_duration 0x82 = 7200.
Proof. vm_compute. split; reflexivity. Qed.

(* ID strings of every length (not only the 0..31 characters a type/length byte can announce), every
   character position, every code: BCD plus = two 4-bit codes per byte, high nibble first, through the table
   0-9 space - . : , _ ; packed 6-bit ASCII = four 6-bit codes in three bytes, least significant bits first,
   code + 20h; 8-bit ASCII + Latin-1 = the bytes themselves.  [Spec.pack_nibbles], [Spec.pack6]: the
   specification's packing, written with arithmetic. *)
Theorem C20_bcd_plus_string : forall ns tail, Forall (fun n => n < 16) ns ->
  Impl.decode_bcd_plus (Spec.pack_nibbles ns ++ tail) (length ns) = Ok (map Spec.bcd_plus_rune ns, Nat.div (length ns + 1) 2).
Proof. exact bcd_plus_roundtrip. Qed.
Theorem C20_packed6_string : forall cs tail, Forall (fun c => c < 64) cs ->
  Impl.decode_packed6 (Spec.pack6 cs ++ tail) (length cs) = Ok (map (fun c => c + 0x20) cs, (length cs - Nat.div (length cs) 4)%nat).
Proof. exact packed6_roundtrip. Qed.
Theorem C20_latin1_string : forall s tail, (length s <> 1)%nat -> Impl.decode_latin1 (s ++ tail) (length s) = Ok (s, length s).
Proof. exact latin1_roundtrip. Qed.
Theorem C20_bcd_plus_table_tie : G.bcdPlusRunes = [] \/ G.bcdPlusRunes = Impl.bcd_plus_runes.
Proof. exact tie_bcd_plus_runes. Qed.
