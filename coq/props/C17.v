(* C17 (layer level) — decoding into a value that has been used before gives
   exactly the result of decoding into a fresh one, for every prior state and
   every input.  In the model every decoder takes the prior value [old]; the
   statement is that it is irrelevant. *)
From BMC Require Import Base Prim Layers Layers2.

Theorem C17_rmcp : forall old bs, decode_rmcp old bs = decode_rmcp rmcp_zero bs. Proof. reflexivity. Qed.
Theorem C17_selector : forall old bs, decode_selector old bs = decode_selector selector_zero bs. Proof. reflexivity. Qed.
Theorem C17_v1session : forall old bs, decode_v1session old bs = decode_v1session v1session_zero bs. Proof. reflexivity. Qed.
Theorem C17_message : forall old bs, decode_message old bs = decode_message message_zero bs. Proof. reflexivity. Qed.
Theorem C17_opensessionrsp : forall old bs, decode_opensessionrsp old bs = decode_opensessionrsp opensessionrsp_zero bs. Proof. reflexivity. Qed.
Theorem C17_rakp1 : forall old bs, decode_rakp1 old bs = decode_rakp1 rakp1_zero bs. Proof. reflexivity. Qed.
Theorem C17_rakp2 : forall old bs, decode_rakp2 old bs = decode_rakp2 rakp2_zero bs. Proof. reflexivity. Qed.
Theorem C17_rakp4 : forall old bs, decode_rakp4 old bs = decode_rakp4 rakp4_zero bs. Proof. reflexivity. Qed.
Theorem C17_deviceid : forall old bs, decode_deviceid old bs = decode_deviceid deviceid_zero bs. Proof. reflexivity. Qed.
Theorem C17_chassis : forall old bs, decode_chassis old bs = decode_chassis chassis_zero bs. Proof. reflexivity. Qed.
Theorem C17_authcaps : forall old bs, decode_authcaps old bs = decode_authcaps authcaps_zero bs. Proof. reflexivity. Qed.
Theorem C17_ciphersuites : forall old bs, decode_ciphersuites old bs = decode_ciphersuites ciphersuites_zero bs. Proof. reflexivity. Qed.
Theorem C17_sessioninfo : forall old bs, decode_sessioninfo old bs = decode_sessioninfo sessioninfo_zero bs. Proof. reflexivity. Qed.
Theorem C17_setpriv : forall old bs, decode_setpriv old bs = decode_setpriv setpriv_zero bs. Proof. reflexivity. Qed.
Theorem C17_guid : forall old bs, decode_guid old bs = decode_guid guid_zero bs. Proof. reflexivity. Qed.
Theorem C17_reserve : forall old bs, decode_reserve old bs = decode_reserve reserve_zero bs. Proof. reflexivity. Qed.
Theorem C17_getsdrrsp : forall old bs, decode_getsdrrsp old bs = decode_getsdrrsp getsdrrsp_zero bs. Proof. reflexivity. Qed.
Theorem C17_sdrhdr : forall old bs, decode_sdrhdr old bs = decode_sdrhdr sdrhdr_zero bs. Proof. reflexivity. Qed.
Theorem C17_sdrrepoinfo : forall old bs, decode_sdrrepoinfo old bs = decode_sdrrepoinfo sdrrepoinfo_zero bs. Proof. reflexivity. Qed.
Theorem C17_sensorreading : forall old bs, decode_sensorreading old bs = decode_sensorreading sensorreading_zero bs. Proof. reflexivity. Qed.
Theorem C17_fsr : forall old bs, decode_fsr old bs = decode_fsr fsr_zero bs. Proof. reflexivity. Qed.
Theorem C17_v2session : forall sign old bs, decode_v2session sign old bs = decode_v2session sign v2session_zero bs. Proof. reflexivity. Qed.
Theorem C17_aescbc : forall dec old bs, decode_aescbc dec old bs = decode_aescbc dec aescbc_zero bs. Proof. reflexivity. Qed.
Theorem C17_dcmicaps : forall old bs, decode_dcmicaps old bs = decode_dcmicaps dcmicaps_zero bs. Proof. reflexivity. Qed.
Theorem C17_dcmimand : forall old bs, decode_dcmimand old bs = decode_dcmimand dcmimand_zero bs. Proof. reflexivity. Qed.
Theorem C17_dcmiopt : forall old bs, decode_dcmiopt old bs = decode_dcmiopt dcmiopt_zero bs. Proof. reflexivity. Qed.
Theorem C17_dcmimgmt : forall old bs, decode_dcmimgmt old bs = decode_dcmimgmt dcmimgmt_zero bs. Proof. reflexivity. Qed.
Theorem C17_dcmipower : forall old bs, decode_dcmipower old bs = decode_dcmipower dcmipower_zero bs. Proof. reflexivity. Qed.
Theorem C17_powerreading : forall old bs, decode_powerreading old bs = decode_powerreading powerreading_zero bs. Proof. reflexivity. Qed.
Theorem C17_dcmisensor : forall old bs, decode_dcmisensor old bs = decode_dcmisensor dcmisensor_zero bs. Proof. reflexivity. Qed.
(* the one place where a partial copy happens: a short auxiliary tail is
   copied over a cleared array *)
Example C17_deviceid_short_tail :
  match decode_deviceid deviceid_zero [1;2;3;4;5;6;7;8;9;10;11;0xaa] with
  | Ok v => di_aux v = [0xaa; 0; 0; 0] | _ => False end.
Proof. vm_compute. reflexivity. Qed.
