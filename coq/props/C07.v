(* C07 — Responses decode exactly as specified; malformed ones are rejected.
   [decode_X old bs] = X.DecodeFromBytes into a layer that held [old] (models run against the Go decoders by
   the C07 check: spec encodings, single-byte corruptions, truncations).  [SpecEnc.X v] (SpecLayers.v) is the
   specification's encoding of the field values [v], written from the IPMI v2.0 / DCMI 1.0-1.5 tables with
   arithmetic (+, *, powers of two), defined exactly when every field is in the range the specification gives
   it; [shape] selects the optional / variable-length tail (with or without auxiliary revision, front-panel
   byte, optional reading bytes, session-info tail, error vs success form).  Each theorem: for ALL field
   values and ALL previous contents [old] of the layer, decoding the encoding yields exactly the values. *)
From BMC Require Import Base Prim Layers Layers2 SpecLayers RoundTrip1 RoundTrip2 FsrProofs StringProofs.
From BMCProps Require Import Tie.


Theorem C07_rmcp :forall old v bs, SpecEnc.rmcp v = Some bs ->
  decode_rmcp old bs = Ok v.
Proof. exact rmcp_roundtrip. Qed.

Theorem C07_setpriv :forall old v bs, SpecEnc.setpriv v = Some bs ->
  decode_setpriv old bs = Ok v.
Proof. exact setpriv_roundtrip. Qed.

Theorem C07_guid :forall old v bs, SpecEnc.guid v = Some bs ->
  decode_guid old bs = Ok v.
Proof. exact guid_roundtrip. Qed.

Theorem C07_reserve :forall old v bs, SpecEnc.reserve v = Some bs ->
  decode_reserve old bs = Ok v.
Proof. exact reserve_roundtrip. Qed.

Theorem C07_getsdrrsp :forall old v bs, SpecEnc.getsdrrsp v = Some bs ->
  decode_getsdrrsp old bs = Ok v.
Proof. exact getsdrrsp_roundtrip. Qed.

Theorem C07_sdrhdr :forall old v bs, SpecEnc.sdrhdr v = Some bs ->
  decode_sdrhdr old bs = Ok v.
Proof. exact sdrhdr_roundtrip. Qed.

Theorem C07_sdrrepoinfo :forall old v bs, SpecEnc.sdrrepoinfo v = Some bs ->
  decode_sdrrepoinfo old bs = Ok v.
Proof. exact sdrrepoinfo_roundtrip. Qed.

Theorem C07_authcaps :forall old v bs, SpecEnc.authcaps v = Some bs ->
  decode_authcaps old bs = Ok v.
Proof. exact authcaps_roundtrip. Qed.

Theorem C07_deviceid :forall shape old v bs, SpecEnc.deviceid shape v = Some bs ->
  decode_deviceid old bs = Ok v.
Proof. exact deviceid_roundtrip. Qed.

Theorem C07_chassis :forall shape old v bs, SpecEnc.chassis shape v = Some bs ->
  decode_chassis old bs = Ok v.
Proof. exact chassis_roundtrip. Qed.

Theorem C07_sensorreading :forall shape old v bs, SpecEnc.sensorreading shape v = Some bs ->
  decode_sensorreading old bs = Ok v.
Proof. exact sensorreading_roundtrip. Qed.

Theorem C07_sessioninfo :forall shape old v bs, SpecEnc.sessioninfo shape v = Some bs ->
  decode_sessioninfo old bs = Ok v.
Proof. exact sessioninfo_roundtrip. Qed.

Theorem C07_ciphersuites :forall old v bs, SpecEnc.ciphersuites v = Some bs ->
  decode_ciphersuites old bs = Ok v.
Proof. exact ciphersuites_roundtrip. Qed.

Theorem C07_dcmimgmt :forall old v bs, SpecEnc.dcmimgmt v = Some bs ->
  decode_dcmimgmt old bs = Ok v.
Proof. exact dcmimgmt_roundtrip. Qed.

Theorem C07_dcmiopt :forall old v bs, SpecEnc.dcmiopt v = Some bs ->
  decode_dcmiopt old bs = Ok v.
Proof. exact dcmiopt_roundtrip. Qed.

Theorem C07_powerreading :forall old v bs, SpecEnc.powerreading v = Some bs ->
  decode_powerreading old bs = Ok v.
Proof. exact powerreading_roundtrip. Qed.

Theorem C07_dcmicaps :forall old v bs, SpecEnc.dcmicaps v = Some bs ->
  decode_dcmicaps old bs = Ok v.
Proof. exact dcmicaps_roundtrip. Qed.

Theorem C07_dcmimand :forall old v bs, SpecEnc.dcmimand v = Some bs ->
  decode_dcmimand old bs = Ok v.
Proof. exact dcmimand_roundtrip. Qed.

Theorem C07_rakp4 :forall shape old v bs, SpecEnc.rakp4 shape v = Some bs ->
  decode_rakp4 old bs = Ok v.
Proof. exact rakp4_roundtrip. Qed.

Theorem C07_rakp2 :forall shape old v bs, SpecEnc.rakp2 shape v = Some bs ->
  decode_rakp2 old bs = Ok v.
Proof. exact rakp2_roundtrip. Qed.

Theorem C07_opensessionrsp :forall shape old v bs, SpecEnc.opensessionrsp shape v = Some bs ->
  decode_opensessionrsp old bs = Ok v.
Proof. exact opensessionrsp_roundtrip. Qed.

Theorem C07_dcmipower :forall old v bs, SpecEnc.dcmipower v = Some bs ->
  decode_dcmipower old bs = Ok v.
Proof. exact dcmipower_roundtrip. Qed.

Theorem C07_dcmisensor :forall old v bs, SpecEnc.dcmisensor v = Some bs ->
  decode_dcmisensor old bs = Ok v.
Proof. exact dcmisensor_roundtrip. Qed.

Theorem C07_fsr :forall enc old v bs, SpecEnc.fsr enc v = Some bs ->
  decode_fsr old bs = Ok v.
Proof. exact fsr_roundtrip. Qed.


(* ID strings, every length from zero upward, with whatever follows them in the record *)
Theorem C07_string_bcd_plus : forall ns tail, Forall (fun n => n < 16) ns ->
  Impl.decode_bcd_plus (Spec.pack_nibbles ns ++ tail) (length ns) = Ok (map Spec.bcd_plus_rune ns, Nat.div (length ns + 1) 2).
Proof. exact bcd_plus_roundtrip. Qed.
Theorem C07_string_packed6 : forall cs tail, Forall (fun c => c < 64) cs ->
  Impl.decode_packed6 (Spec.pack6 cs ++ tail) (length cs) = Ok (map (fun c => c + 0x20) cs, (length cs - Nat.div (length cs) 4)%nat).
Proof. exact packed6_roundtrip. Qed.
Theorem C07_string_latin1 : forall s tail, (length s <> 1)%nat -> Impl.decode_latin1 (s ++ tail) (length s) = Ok (s, length s).
Proof. exact latin1_roundtrip. Qed.
(* IPMI v2.0 43.15: a one-character 8-bit string is not legal; the code accepts it when a byte follows *)
Theorem C07_string_latin1_one : forall c tail,
  Impl.decode_latin1 ([c] ++ tail) 1 = match tail with [] => Err | _ => Ok ([c], 1%nat) end.
Proof. exact latin1_roundtrip_1. Qed.
Theorem C07_strings_too_short_rejected :
  (forall b c, (length b < Nat.div (c + 1) 2)%nat -> Impl.decode_bcd_plus b c = Err) /\
  (forall b c, (length b < c - Nat.div c 4)%nat -> Impl.decode_packed6 b c = Err) /\
  (forall b c, (c <> 0)%nat -> (length b < c \/ length b < 2)%nat -> Impl.decode_latin1 b c = Err).
Proof. exact (conj bcd_plus_short (conj packed6_short latin1_short)). Qed.
