From BMC Require Import Base.
Theorem C07_placeholder : True. Proof. exact I. Qed.
