(* C07 — Responses decode exactly as specified; malformed ones are rejected.
   [decode_X old bs] = X.DecodeFromBytes into a layer that held [old] (models run against the Go decoders by
   the C07 check: spec encodings, single-byte corruptions, truncations).  [SpecEnc.X v] (SpecLayers.v) is the
   specification's encoding of the field values [v], written from the IPMI v2.0 / DCMI 1.0-1.5 tables with
   arithmetic (+, *, powers of two), defined exactly when every field is in the range the specification gives
   it; [shape] selects the optional / variable-length tail (with or without auxiliary revision, front-panel
   byte, optional reading bytes, session-info tail, error vs success form).  Each theorem: for ALL field
   values and ALL previous contents [old] of the layer, decoding the encoding yields exactly the values. *)
From BMC Require Import Base Prim Layers Layers2 SpecLayers RoundTrip1 RoundTrip2 FsrProofs StringProofs RejectProofs.


Theorem C07_rmcp :forall old v bs, SpecEnc.rmcp v = Some bs ->
  decode_rmcp old bs = Ok v.
Proof. exact rmcp_roundtrip. Qed.

Theorem C07_setpriv :forall old v bs, SpecEnc.setpriv v = Some bs ->
  decode_setpriv old bs = Ok v.
Proof. exact setpriv_roundtrip. Qed.

Theorem C07_guid :forall old v bs, SpecEnc.guid v = Some bs ->
  decode_guid old bs = Ok v.
Proof. exact guid_roundtrip. Qed.

Theorem C07_reserve :forall old v bs, SpecEnc.reserve v = Some bs ->
  decode_reserve old bs = Ok v.
Proof. exact reserve_roundtrip. Qed.

Theorem C07_getsdrrsp :forall old v bs, SpecEnc.getsdrrsp v = Some bs ->
  decode_getsdrrsp old bs = Ok v.
Proof. exact getsdrrsp_roundtrip. Qed.

Theorem C07_sdrhdr :forall old v bs, SpecEnc.sdrhdr v = Some bs ->
  decode_sdrhdr old bs = Ok v.
Proof. exact sdrhdr_roundtrip. Qed.

Theorem C07_sdrrepoinfo :forall old v bs, SpecEnc.sdrrepoinfo v = Some bs ->
  decode_sdrrepoinfo old bs = Ok v.
Proof. exact sdrrepoinfo_roundtrip. Qed.

Theorem C07_authcaps :forall old v bs, SpecEnc.authcaps v = Some bs ->
  decode_authcaps old bs = Ok v.
Proof. exact authcaps_roundtrip. Qed.

Theorem C07_deviceid :forall shape old v bs, SpecEnc.deviceid shape v = Some bs ->
  decode_deviceid old bs = Ok v.
Proof. exact deviceid_roundtrip. Qed.

Theorem C07_chassis :forall shape old v bs, SpecEnc.chassis shape v = Some bs ->
  decode_chassis old bs = Ok v.
Proof. exact chassis_roundtrip. Qed.

Theorem C07_sensorreading :forall shape old v bs, SpecEnc.sensorreading shape v = Some bs ->
  decode_sensorreading old bs = Ok v.
Proof. exact sensorreading_roundtrip. Qed.

Theorem C07_sessioninfo :forall shape old v bs, SpecEnc.sessioninfo shape v = Some bs ->
  decode_sessioninfo old bs = Ok v.
Proof. exact sessioninfo_roundtrip. Qed.

Theorem C07_ciphersuites :forall old v bs, SpecEnc.ciphersuites v = Some bs ->
  decode_ciphersuites old bs = Ok v.
Proof. exact ciphersuites_roundtrip. Qed.

Theorem C07_dcmimgmt :forall old v bs, SpecEnc.dcmimgmt v = Some bs ->
  decode_dcmimgmt old bs = Ok v.
Proof. exact dcmimgmt_roundtrip. Qed.

Theorem C07_dcmiopt :forall old v bs, SpecEnc.dcmiopt v = Some bs ->
  decode_dcmiopt old bs = Ok v.
Proof. exact dcmiopt_roundtrip. Qed.

Theorem C07_powerreading :forall old v bs, SpecEnc.powerreading v = Some bs ->
  decode_powerreading old bs = Ok v.
Proof. exact powerreading_roundtrip. Qed.

Theorem C07_dcmicaps :forall old v bs, SpecEnc.dcmicaps v = Some bs ->
  decode_dcmicaps old bs = Ok v.
Proof. exact dcmicaps_roundtrip. Qed.

Theorem C07_dcmimand :forall old v bs, SpecEnc.dcmimand v = Some bs ->
  decode_dcmimand old bs = Ok v.
Proof. exact dcmimand_roundtrip. Qed.

Theorem C07_rakp4 :forall shape old v bs, SpecEnc.rakp4 shape v = Some bs ->
  decode_rakp4 old bs = Ok v.
Proof. exact rakp4_roundtrip. Qed.

Theorem C07_rakp2 :forall shape old v bs, SpecEnc.rakp2 shape v = Some bs ->
  decode_rakp2 old bs = Ok v.
Proof. exact rakp2_roundtrip. Qed.

Theorem C07_opensessionrsp :forall shape old v bs, SpecEnc.opensessionrsp shape v = Some bs ->
  decode_opensessionrsp old bs = Ok v.
Proof. exact opensessionrsp_roundtrip. Qed.

Theorem C07_dcmipower :forall old v bs, SpecEnc.dcmipower v = Some bs ->
  decode_dcmipower old bs = Ok v.
Proof. exact dcmipower_roundtrip. Qed.

Theorem C07_dcmisensor :forall old v bs, SpecEnc.dcmisensor v = Some bs ->
  decode_dcmisensor old bs = Ok v.
Proof. exact dcmisensor_roundtrip. Qed.

Theorem C07_fsr :forall enc old v bs, SpecEnc.fsr enc v = Some bs ->
  decode_fsr old bs = Ok v.
Proof. exact fsr_roundtrip. Qed.


(* ID strings, every length from zero upward, with whatever follows them in the record *)
Theorem C07_string_bcd_plus : forall ns tail, Forall (fun n => n < 16) ns ->
  Impl.decode_bcd_plus (Spec.pack_nibbles ns ++ tail) (length ns) = Ok (map Spec.bcd_plus_rune ns, Nat.div (length ns + 1) 2).
Proof. exact bcd_plus_roundtrip. Qed.
Theorem C07_string_packed6 : forall cs tail, Forall (fun c => c < 64) cs ->
  Impl.decode_packed6 (Spec.pack6 cs ++ tail) (length cs) = Ok (map (fun c => c + 0x20) cs, (length cs - Nat.div (length cs) 4)%nat).
Proof. exact packed6_roundtrip. Qed.
Theorem C07_string_latin1 : forall s tail, (length s <> 1)%nat -> Impl.decode_latin1 (s ++ tail) (length s) = Ok (s, length s).
Proof. exact latin1_roundtrip. Qed.
(* IPMI v2.0 43.15: a one-character 8-bit string is not legal; the code accepts it when a byte follows *)
Theorem C07_string_latin1_one : forall c tail,
  Impl.decode_latin1 ([c] ++ tail) 1 = match tail with [] => Err | _ => Ok ([c], 1%nat) end.
Proof. exact latin1_roundtrip_1. Qed.
Theorem C07_strings_too_short_rejected :
  (forall b c, (length b < Nat.div (c + 1) 2)%nat -> Impl.decode_bcd_plus b c = Err) /\
  (forall b c, (length b < c - Nat.div c 4)%nat -> Impl.decode_packed6 b c = Err) /\
  (forall b c, (c <> 0)%nat -> (length b < c \/ length b < 2)%nat -> Impl.decode_latin1 b c = Err).
Proof. exact (conj bcd_plus_short (conj packed6_short latin1_short)). Qed.

(* ---------------- malformed responses are rejected with an error ---------------- *)
(* an IPMI message is accepted only if it has at least 7 bytes and BOTH checksums are right *)
Theorem C07_message_checksums_required : forall old bs m, decode_message old bs = Ok m ->
  (7 <= length bs)%nat /\ nth 2 bs 0 = Impl.checksum (firstn 2 bs) /\
  nth (length bs - 1) bs 0 = Impl.checksum (firstn (length bs - 4) (skipn 3 bs)).
Proof. exact message_accept_inv. Qed.
Theorem C07_bad_checksum1_rejected : forall old bs, (7 <= length bs)%nat ->
  nth 2 bs 0 <> Impl.checksum (firstn 2 bs) -> decode_message old bs = Err.
Proof. exact message_bad_checksum1. Qed.
Theorem C07_bad_checksum2_rejected : forall old bs, (7 <= length bs)%nat ->
  nth 2 bs 0 = Impl.checksum (firstn 2 bs) ->
  nth (length bs - 1) bs 0 <> Impl.checksum (firstn (length bs - 4) (skipn 3 bs)) -> decode_message old bs = Err.
Proof. exact message_bad_checksum2. Qed.
(* every single-byte corruption of an accepted message - of a checksum or of any byte a checksum covers,
   i.e. of ANY byte - is rejected *)
Theorem C07_single_byte_corruption_rejected : forall old old' pre a a' post m,
  a < 256 -> a' < 256 -> a <> a' ->
  decode_message old (pre ++ a :: post) = Ok m -> decode_message old' (pre ++ a' :: post) = Err.
Proof. exact message_single_byte_corruption. Qed.
(* a v2.0 session wrapper is accepted only if header + length field fit in the data; the payload is exactly
   that many bytes *)
Theorem C07_wrapper_length_within_data : forall sign old bs w, decode_v2session sign old bs = Ok w ->
  (v2_header_len (v2_ptype w) + N.to_nat (v2_length w) <= length bs)%nat /\
  v2_payload w = firstn (N.to_nat (v2_length w)) (skipn (v2_header_len (v2_ptype w)) bs).
Proof. exact v2session_accept_inv. Qed.
Theorem C07_wrapper_length_exceeds_rejected : forall sign old d1 i0 i1 i2 i3 s0 s1 s2 s3 l0 l1 rest,
  N.land d1 0x3f <> 2 -> (length rest < N.to_nat (le16 l0 l1))%nat ->
  decode_v2session sign old (6 :: d1 :: i0 :: i1 :: i2 :: i3 :: s0 :: s1 :: s2 :: s3 :: l0 :: l1 :: rest) = Err.
Proof. exact v2session_length_exceeds. Qed.
(* the v1.5 wrapper does NOT compare its length byte with the data (observation O12): what it does instead *)
Theorem C07_v1_wrapper_length_not_checked : forall old bs w, decode_v1session old bs = Ok w ->
  let hdr := if v1_authtype w =? 0 then 10%nat else 26%nat in
  (hdr <= length bs)%nat /\ v1_authtype w = nth 0 bs 0 /\ v1_length w = nth (hdr - 1) bs 0 /\ v1_payload w = skipn hdr bs.
Proof. exact v1session_accept_inv. Qed.
(* every layer: a body shorter than the layer's minimum (and the conditional minimums of optional or counted
   parts) is an error *)
Theorem C07_short_bodies_rejected :
  (forall old bs, (length bs < 4)%nat -> decode_rmcp old bs = Err) /\
  (forall old bs, (length bs < 1)%nat -> decode_selector old bs = Err) /\
  (forall old bs, (length bs < 10)%nat -> decode_v1session old bs = Err) /\
  (forall old bs, nth 0 bs 0 <> 0 -> (length bs < 26)%nat -> decode_v1session old bs = Err) /\
  (forall sign old bs, (length bs < 12)%nat -> decode_v2session sign old bs = Err) /\
  (forall sign old bs, (length bs < 18)%nat -> N.land (nth 1 bs 0) 0x3f = 2 -> decode_v2session sign old bs = Err) /\
  (forall dec old bs, (length bs < 17)%nat -> decode_aescbc dec old bs = Err) /\
  (forall dec old bs, Nat.modulo (length bs) 16 <> 0%nat -> decode_aescbc dec old bs = Err) /\
  (forall old bs, (length bs < 7)%nat -> decode_message old bs = Err) /\
  (forall old bs, length bs = 7%nat -> N.shiftr (nth 1 bs 0) 2 mod 2 <> 0 -> decode_message old bs = Err) /\
  (forall old bs, (length bs < message_min_len (N.shiftr (nth 1 bs 0%N) 2))%nat -> decode_message old bs = Err) /\
  (forall old bs, length bs <> 1%nat -> (length bs < 7)%nat -> decode_opensessionrsp old bs = Err) /\
  (forall old bs, length bs <> 36%nat -> nth (if Nat.eqb (length bs) 1 then 0 else 1)%nat bs 0 = 0 ->
                  decode_opensessionrsp old bs = Err) /\
  (forall old bs, (length bs < 28)%nat -> decode_rakp1 old bs = Err) /\
  (forall old bs, (length bs < 28 + N.to_nat (nth 27 bs 0%N))%nat -> decode_rakp1 old bs = Err) /\
  (forall old bs, (length bs < 8)%nat -> decode_rakp2 old bs = Err) /\
  (forall old bs, nth 1 bs 0 = 0 -> (length bs < 40)%nat -> decode_rakp2 old bs = Err) /\
  (forall old bs, (length bs < 8)%nat -> decode_rakp4 old bs = Err) /\
  (forall old bs, (length bs < 11)%nat -> decode_deviceid old bs = Err) /\
  (forall old bs, (length bs < 3)%nat -> decode_chassis old bs = Err) /\
  (forall old bs, (length bs < 8)%nat -> decode_authcaps old bs = Err) /\
  (forall old bs, (length bs < 1)%nat -> decode_ciphersuites old bs = Err) /\
  (forall old bs, (length bs < 3)%nat -> decode_sessioninfo old bs = Err) /\
  (forall old bs, ~ (nth 0 bs 0 = 0 /\ length bs = 3%nat) -> (length bs < 6)%nat -> decode_sessioninfo old bs = Err) /\
  (forall old bs, length bs <> 1%nat -> decode_setpriv old bs = Err) /\
  (forall old bs, (length bs < 16)%nat -> decode_guid old bs = Err) /\
  (forall old bs, (length bs < 2)%nat -> decode_reserve old bs = Err) /\
  (forall old bs, (length bs < 2)%nat -> decode_getsdrrsp old bs = Err) /\
  (forall old bs, (length bs < 5)%nat -> decode_sdrhdr old bs = Err) /\
  (forall old bs, (length bs < 14)%nat -> decode_sdrrepoinfo old bs = Err) /\
  (forall old bs, (length bs < 3)%nat -> decode_sensorreading old bs = Err) /\
  (forall old bs, (length bs < 43)%nat -> decode_fsr old bs = Err) /\
  (forall old bs, (length bs < 3 + 3)%nat -> decode_dcmicaps old bs = Err) /\
  (forall old bs, (length bs < 3 + 4)%nat -> decode_dcmimand old bs = Err) /\
  (forall old bs, (length bs < 3 + 2)%nat -> decode_dcmiopt old bs = Err) /\
  (forall old bs, (length bs < 3 + 3)%nat -> decode_dcmimgmt old bs = Err) /\
  (forall old bs, (length bs < 3 + 1)%nat -> decode_dcmipower old bs = Err) /\
  (forall old bs, (4 <= length bs)%nat -> (length bs < 4 + N.to_nat (nth 3 bs 0%N))%nat -> decode_dcmipower old bs = Err) /\
  (forall old bs, (length bs < 17)%nat -> decode_powerreading old bs = Err) /\
  (forall old bs, (length bs < 2)%nat -> decode_dcmisensor old bs = Err) /\
  (forall old bs, (2 <= length bs)%nat -> (length bs < 2 + N.to_nat (nth 1 bs 0%N) * 2)%nat -> decode_dcmisensor old bs = Err).
Proof. exact all_short_rejected. Qed.

(* reserved bits a BMC may set: bit 5 of the ID string type/length byte of a Full Sensor Record is ignored - the record
   decodes exactly as the one with the bit clear (type = bits 7:6, length = bits 4:0) *)
Theorem C07_fsr_reserved_bit_ignored : forall old b0 b1 b2 b3 b4 b5 b6 b7 b8 b9 b10 b11 b12 b13 b14 b15 b16 b17 b18 b19 b20 b21 b22 b23 b24 b25 b26 b27 b28 b29 b30 b31 b32 b33 b34 b35 b36 b37 b38 b39 b40 b41 d42 rest,
  d42 < 256 -> N.testbit d42 5 = false ->
  decode_fsr old (b0 :: b1 :: b2 :: b3 :: b4 :: b5 :: b6 :: b7 :: b8 :: b9 :: b10 :: b11 :: b12 :: b13 :: b14 :: b15 :: b16 :: b17 :: b18 :: b19 :: b20 :: b21 :: b22 :: b23 :: b24 :: b25 :: b26 :: b27 :: b28 :: b29 :: b30 :: b31 :: b32 :: b33 :: b34 :: b35 :: b36 :: b37 :: b38 :: b39 :: b40 :: b41 :: (d42 + 32) :: rest) =
  decode_fsr old (b0 :: b1 :: b2 :: b3 :: b4 :: b5 :: b6 :: b7 :: b8 :: b9 :: b10 :: b11 :: b12 :: b13 :: b14 :: b15 :: b16 :: b17 :: b18 :: b19 :: b20 :: b21 :: b22 :: b23 :: b24 :: b25 :: b26 :: b27 :: b28 :: b29 :: b30 :: b31 :: b32 :: b33 :: b34 :: b35 :: b36 :: b37 :: b38 :: b39 :: b40 :: b41 :: d42 :: rest).
Proof. exact fsr_reserved_bit_ignored. Qed.
