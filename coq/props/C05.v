(* C05 — no received bytes can crash the library: for every layer decoder,
   every prior state of the reused layer value and every byte string (any
   length), decoding returns a value or an error, never [Fault] (= an index or
   slice beyond the datagram: a panic on an exact-capacity slice, an over-read
   of the receive buffer otherwise).  Statements only; proofs in BMC.LayerTotal. *)
From BMC Require Import Base Prim Layers Layers2 LayerTotal.

Theorem C05_rmcp : forall old bs, decode_rmcp old bs <> Fault. Proof. exact rmcp_total. Qed.
Theorem C05_selector : forall old bs, decode_selector old bs <> Fault. Proof. exact selector_total. Qed.
Theorem C05_v1session : forall old bs, decode_v1session old bs <> Fault. Proof. exact v1session_total. Qed.
Theorem C05_message : forall old bs, decode_message old bs <> Fault. Proof. exact message_total. Qed.
Theorem C05_opensessionrsp : forall old bs, decode_opensessionrsp old bs <> Fault. Proof. exact opensessionrsp_total. Qed.
Theorem C05_rakp1 : forall old bs, decode_rakp1 old bs <> Fault. Proof. exact rakp1_total. Qed.
Theorem C05_rakp2 : forall old bs, decode_rakp2 old bs <> Fault. Proof. exact rakp2_total. Qed.
Theorem C05_rakp4 : forall old bs, decode_rakp4 old bs <> Fault. Proof. exact rakp4_total. Qed.
Theorem C05_deviceid : forall old bs, decode_deviceid old bs <> Fault. Proof. exact deviceid_total. Qed.
Theorem C05_chassis : forall old bs, decode_chassis old bs <> Fault. Proof. exact chassis_total. Qed.
Theorem C05_authcaps : forall old bs, decode_authcaps old bs <> Fault. Proof. exact authcaps_total. Qed.
Theorem C05_ciphersuites : forall old bs, decode_ciphersuites old bs <> Fault. Proof. exact ciphersuites_total. Qed.
Theorem C05_sessioninfo : forall old bs, decode_sessioninfo old bs <> Fault. Proof. exact sessioninfo_total. Qed.
Theorem C05_setpriv : forall old bs, decode_setpriv old bs <> Fault. Proof. exact setpriv_total. Qed.
Theorem C05_guid : forall old bs, decode_guid old bs <> Fault. Proof. exact guid_total. Qed.
Theorem C05_reserve : forall old bs, decode_reserve old bs <> Fault. Proof. exact reserve_total. Qed.
Theorem C05_getsdrrsp : forall old bs, decode_getsdrrsp old bs <> Fault. Proof. exact getsdrrsp_total. Qed.
Theorem C05_sdrhdr : forall old bs, decode_sdrhdr old bs <> Fault. Proof. exact sdrhdr_total. Qed.
Theorem C05_sdrrepoinfo : forall old bs, decode_sdrrepoinfo old bs <> Fault. Proof. exact sdrrepoinfo_total. Qed.
Theorem C05_sensorreading : forall old bs, decode_sensorreading old bs <> Fault. Proof. exact sensorreading_total. Qed.
Theorem C05_powerreading : forall old bs, decode_powerreading old bs <> Fault. Proof. exact powerreading_total. Qed.

(* non-vacuity: the guards are real — the shortest accepted inputs decode *)
Example C05_message_min : is_ok (decode_message message_zero [0x20; 0x18; 0xc8; 0x81; 0x04; 0x01; 0x7a]) = true.
Proof. vm_compute. reflexivity. Qed.
Example C05_message_7byte_response_rejected :
  decode_message message_zero [0x81; 0x1c; 0x63; 0x20; 0x04; 0x01; 0xdb] = Err.
Proof. vm_compute. reflexivity. Qed.

(* ---- the remaining layers (variable-length parts, the session wrapper, AES over any block function of the right length) ---- *)
From BMC Require Import LayerTotal2 PipelineTotal Packet Conn Handshake Proc.
Theorem C05_fsr : forall old bs, decode_fsr old bs <> Fault. Proof. exact fsr_total. Qed.
Theorem C05_v2session : forall sign old bs, decode_v2session sign old bs <> Fault. Proof. exact v2session_total. Qed.
Theorem C05_aescbc : forall dec, (forall b, length (dec b) = 16%nat) -> forall old bs, decode_aescbc dec old bs <> Fault.
Proof. exact aescbc_total. Qed.
Theorem C05_dcmicaps : forall old bs, decode_dcmicaps old bs <> Fault. Proof. exact dcmicaps_total. Qed.
Theorem C05_dcmimand : forall old bs, decode_dcmimand old bs <> Fault. Proof. exact dcmimand_total. Qed.
Theorem C05_dcmiopt : forall old bs, decode_dcmiopt old bs <> Fault. Proof. exact dcmiopt_total. Qed.
Theorem C05_dcmimgmt : forall old bs, decode_dcmimgmt old bs <> Fault. Proof. exact dcmimgmt_total. Qed.
Theorem C05_dcmipower : forall old bs, decode_dcmipower old bs <> Fault. Proof. exact dcmipower_total. Qed.
Theorem C05_dcmisensor : forall old bs, decode_dcmisensor old bs <> Fault. Proof. exact dcmisensor_total. Qed.

(* ---- pipeline level: whatever is delivered as the reply, at any attempt of a session-less command, a handshake
   exchange or an in-session command (with ANY keys: [s_sign], [s_dec] arbitrary, i.e. also for a party that knows
   them), the retry loops and the handshake end in a value or an error, never in a fault ---- *)
Theorem C05_receive : forall sign conf bs, conf_ok conf -> receive sign conf bs <> Fault.
Proof. exact receive_total. Qed.
Theorem C05_sessionless_command : forall pkt o script sent codes,
  lr_outcome (sessionless_loop pkt o script sent codes) <> OFault.
Proof. exact sessionless_loop_no_fault. Qed.
Theorem C05_session_command : forall s o lun body script seq ivs sent codes,
  (forall b, length (s_dec s b) = 16%nat) ->
  lr_outcome (session_loop s o lun body seq ivs script sent codes) <> OFault.
Proof. exact session_loop_no_fault. Qed.
Theorem C05_handshake : forall o s random sc1 sc2 sc3, snd (new_session o s random sc1 sc2 sc3) <> inr EFault.
Proof. exact new_session_no_fault. Qed.
(* cipher-suite record parsing: no fault and the fuel (one unit per byte) is never exhausted, i.e. it terminates *)
Theorem C05_parse_records : forall joined acc,
  parse_records (length joined) joined acc <> RsFault /\ parse_records (length joined) joined acc <> RsOutOfFuel.
Proof. exact parse_records_total. Qed.
