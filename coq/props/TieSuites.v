(* TieSuites.v — the default cipher-suite preference list and the suite constants (v2session_new.go, pkg/ipmi) *)
From Coq Require Import List NArith String Bool.
Import ListNotations.
From BMC Require Import Base Prim Layers Layers2 Serialize SpecRequests Packet Conn Handshake Hmac Proc.
From BMCProps Require Export TieBase.
Local Open Scope N_scope.
Lemma tie_default_suites :
  map (fun s => (su_auth s, su_integ s, su_conf s)) default_suites = G.defaultCipherSuites.
Proof. reflexivity. Qed.
