(* TiePrim.v — primitive tables: BCD-plus runes, rolling-average multipliers, (the code -> function bindings of analog parsers and string decoders are exercised for every code by the C20/C15 runs and are not tied syntactically) *)
From Coq Require Import List NArith String Bool.
Import ListNotations.
From BMC Require Import Base Prim Layers Layers2 Serialize SpecRequests Packet Conn Handshake Hmac Proc.
From BMCProps Require Export TieBase.
Local Open Scope N_scope.
Lemma tie_bcd_plus_runes : G.bcdPlusRunes = Impl.bcd_plus_runes.
Proof. reflexivity. Qed.
Lemma tie_seconds_multiplier :
  G.seconds_multiplier_table = [([0], (0, [1], false)); ([1], (0, [60], false)); ([2], (0, [60; 60], false));
                                ([], (0, [60; 60; 24], false))].
Proof. reflexivity. Qed.

