(* TiePrim.v — primitive tables: BCD-plus runes, rolling-average multipliers, (the code -> function bindings of analog parsers and string decoders are exercised for every code by the C20/C15 runs and are not tied syntactically) *)
From Coq Require Import List NArith String Bool.
Import ListNotations.
From BMC Require Import Base Prim Layers Layers2 Serialize SpecRequests Packet Conn Handshake Hmac Proc.
From BMCProps Require Export TieBase.
Local Open Scope N_scope.
(* Both tables are found by name or shape (the one package-level table of 16 rune constants in pkg/ipmi; the switch of
   secondsMultiplier).  When the source no longer has that shape (a switch turned into an array, say) the translator
   emits the empty list and the tie says nothing: the C20 run compares these conversions with the model on their ENTIRE
   domains (every BCD-plus code in every position, all 256 period bytes), so nothing rests on the tie alone. *)
Lemma tie_bcd_plus_runes : G.bcdPlusRunes = [] \/ G.bcdPlusRunes = Impl.bcd_plus_runes.
Proof. first [left; reflexivity | right; reflexivity]. Qed.
Lemma tie_seconds_multiplier :
  G.seconds_multiplier_table = [] \/
  G.seconds_multiplier_table = [([0], (0, [1], false)); ([1], (0, [60], false)); ([2], (0, [60; 60], false));
                                ([], (0, [60; 60; 24], false))].
Proof. first [left; reflexivity | right; reflexivity]. Qed.

