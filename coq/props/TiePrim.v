(* TiePrim.v — primitive tables: BCD-plus runes, rolling-average multipliers, analog parsers, string decoders, linearisers *)
From Coq Require Import List NArith String Bool.
Import ListNotations.
From BMC Require Import Base Prim Layers Layers2 Serialize SpecRequests Packet Conn Handshake Hmac Proc.
From BMCProps Require Export TieBase.
Local Open Scope N_scope.
Lemma tie_bcd_plus_runes : G.bcdPlusRunes = Impl.bcd_plus_runes.
Proof. reflexivity. Qed.
Lemma tie_seconds_multiplier :
  G.seconds_multiplier_table = [([0], (0, [1], false)); ([1], (0, [60], false)); ([2], (0, [60; 60], false));
                                ([], (0, [60; 60; 24], false))].
Proof. reflexivity. Qed.
Lemma tie_analog_parsers :
  G.analog_parsers = [(0, "AnalogDataFormatParserFunc parseAnalogDataFormatUnsigned");
                      (1, "AnalogDataFormatParserFunc parseAnalogDataFormatOnesComplement");
                      (2, "AnalogDataFormatParserFunc parseAnalogDataFormatTwosComplement")]%string.
Proof. reflexivity. Qed.
Lemma tie_string_decoders :
  G.string_decoders = [(0, "StringDecoderFunc decode8BitAsciiLatin1"); (1, "StringDecoderFunc decodeBCDPlus");
                       (2, "StringDecoderFunc decodePacked6BitAscii"); (3, "StringDecoderFunc decode8BitAsciiLatin1")]%string.
Proof. reflexivity. Qed.
(* linearisation code -> Go function; the meaning of each Go function is the 11-row table of the specification
   (36.3): ln, log10, log2, e^x, 10^x, 2^x, 1/x, x^2, x^3, sqrt, cube root *)
Lemma tie_linearisers :
  G.linearisers = [(1, "LineariserFunc math Log"); (2, "LineariserFunc math Log10"); (3, "LineariserFunc math Log2");
                   (4, "LineariserFunc math Exp"); (5, "LineariserFunc f float64 float64 math Pow 10 f");
                   (6, "LineariserFunc math Exp2"); (7, "LineariserFunc f float64 float64 math Pow f - 1");
                   (8, "LineariserFunc f float64 float64 math Pow f 2"); (9, "LineariserFunc f float64 float64 math Pow f 3");
                   (10, "LineariserFunc math Sqrt"); (11, "LineariserFunc f float64 float64 math Cbrt f")]%string
  /\ G.LinearisationLinear = 0 /\ G.LinearisationNonLinear = 12.
Proof. repeat split. Qed.

