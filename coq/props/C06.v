From BMC Require Import Base.
Theorem C06_placeholder : True. Proof. exact I. Qed.
