(* C06 — Requests are encoded exactly as the IPMI and DCMI specifications define.
   Library side: [ser_request] (every SerializeTo of a request layer), [ser_opensessionreq], [ser_rakp1],
   [ser_rakp3], [ser_message], [sessionless_command_packet] / [payload_packet] (buildAndSendCommand /
   buildAndSendPayload) — compared with the Go code on every generated request by the C06 check.
   Specification side (module SpecParse, written from the tables of IPMI v2.0 13.x/22.x and DCMI 1.5 6.x):
   [request_body], [lan_request], [datagram], [open_session_request], [rakp_message_1], [rakp_message_3].
   [wf_request]: the caller's field values are in the ranges the specification gives the fields. *)
From BMC Require Import Base Prim Layers Layers2 Serialize SpecRequests Packet RequestProofs Conn ConnProofs.
From BMCProps Require Import TieOps.
Import SpecParse.

(* every request body, for all field values: the specification parser reads back the caller's fields *)
Theorem C06_request_bodies : forall r bs,
  wf_request r = true -> ser_request r [] = Ok bs -> request_body (kind_of r) bs = Some r.
Proof. exact request_body_roundtrip. Qed.
(* the IPMI message: addresses 20h/81h, NetFn/LUN, sequence, command, group-extension body code, two valid
   two's-complement checksums, data = the body *)
Theorem C06_message : forall o lun body m bs,
  op_fn o < 64 -> op_fn o mod 2 = 0 -> op_fn o <> 0x2e -> op_cmd o < 256 -> lun < 4 ->
  (op_fn o = 0x2c -> op_body o < 256) ->
  ser_message (request_message o lun) body = Ok (m, bs) ->
  lan_request bs = Some (expected_lanreq o lun body).
Proof. exact lan_request_roundtrip. Qed.
(* the composed datagram outside a session: RMCP (version 6, sequence FFh, class IPMI), null v2.0 wrapper with
   payload type IPMI and the exact length, the message *)
Theorem C06_sessionless_datagram : forall o lun body pkt,
  op_fn o < 64 -> op_fn o mod 2 = 0 -> op_fn o <> 0x2e -> op_cmd o < 256 -> lun < 4 ->
  (op_fn o = 0x2c -> op_body o < 256) ->
  request_message_length o body < 65536 ->
  sessionless_command_packet o lun body = Ok pkt ->
  exists w, datagram pkt = Some w /\ w_ptype w = 0 /\ w_id w = 0 /\ w_seq w = 0 /\
            w_encrypted w = false /\ w_authenticated w = false /\ w_trailer w = [] /\
            lan_request (w_payload w) = Some (expected_lanreq o lun body).
Proof. exact sessionless_datagram. Qed.
(* RMCP+ setup payloads: wrapper with the payload's type and length, payload untouched *)
Theorem C06_setup_datagram : forall ptype payload pkt,
  ptype = 0x10 \/ ptype = 0x12 \/ ptype = 0x14 -> N.of_nat (length payload) < 65536 ->
  payload_packet ptype payload = Ok pkt ->
  exists w, datagram pkt = Some w /\ w_ptype w = ptype /\ w_id w = 0 /\ w_seq w = 0 /\
            w_encrypted w = false /\ w_authenticated w = false /\ w_trailer w = [] /\ w_payload w = payload.
Proof. exact setup_datagram. Qed.
Theorem C06_open_session_request : forall v bs,
  oq_tag v < 256 -> oq_maxpriv v < 16 -> oq_id v < 4294967296 ->
  ap_wildcard (oq_auth v) = false -> ap_alg (oq_auth v) < 64 ->
  ap_wildcard (oq_integ v) = false -> ap_alg (oq_integ v) < 64 ->
  ap_wildcard (oq_conf v) = false -> ap_alg (oq_conf v) < 64 ->
  ser_opensessionreq v [] = Ok bs -> open_session_request bs = Some v.
Proof. exact open_request_roundtrip. Qed.
Theorem C06_rakp1 : forall v bs,
  r1_tag v < 256 -> r1_maxpriv v < 16 -> r1_bmc_id v < 4294967296 ->
  length (r1_random v) = 16%nat -> (length (r1_username v) <= 16)%nat ->
  ser_rakp1 v [] = Ok bs -> rakp_message_1 bs = Some v.
Proof. exact rakp1_roundtrip. Qed.
Theorem C06_rakp3 : forall v bs,
  r3_tag v < 256 -> r3_status v < 256 -> r3_bmc_id v < 4294967296 -> (r3_authcode v <> [] -> r3_status v = 0) ->
  ser_rakp3 v [] = Ok bs -> rakp_message_3 bs = Some v.
Proof. exact rakp3_roundtrip. Qed.
(* a user name longer than 16 bytes is an error, not a truncation *)
Theorem C06_long_username_refused : forall v buf, (16 < length (r1_username v))%nat -> ser_rakp1 v buf = Err.
Proof. exact rakp1_long_username_refused. Qed.
(* the operation table in the source now is the specification's command table (NetFn, command, body code) *)
(* Session.Close: the Close Session request the session sends (session_close = session_send of this request under
   NetFn App / command 3Ch, C03 for the datagram around it) carries the MANAGED SYSTEM's session ID - the ID the BMC
   allocated, not the console's own - and the specification's parser (22.19) reads it back as such *)
Theorem C06_close_names_bmc_session : forall s,
  0 < s_remote_id s < 4294967296 ->
  ser_request (close_request s) [] = Ok (put_le32 (s_remote_id s)) /\
  request_body KCloseSession (put_le32 (s_remote_id s)) = Some (RqCloseSession (s_remote_id s) 0).
Proof. exact close_names_bmc_session. Qed.
Theorem C06_close_operation : op_close_session = {| op_fn := 6; op_body := 0; op_ent := 0; op_cmd := 0x3c |} /\
  forall s seq ivs script, session_close s seq ivs script = session_send s seq ivs op_close_session 0 (close_request s) script.
Proof. split; reflexivity. Qed.

Theorem C06_operation_table_tie :
  forallb (fun c => opt_eqb (cmd_op (code_name c)) (spec_row c)) all_commands = true /\ (forall c, In c all_commands).
Proof. exact (conj tie_operation_table all_commands_complete). Qed.
