From BMC Require Import Base.
Theorem C04_placeholder : True. Proof. exact I. Qed.
