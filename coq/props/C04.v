(* C04 — only authentic packets addressed to this session are accepted as
   responses.  [session_verdict s o bs]: how the retry closure of an in-session
   command classifies a received datagram ([VFinal m]: the command completes
   with message m).  [s_sign s] is the negotiated integrity algorithm keyed
   with K1, [s_dec s] AES decryption under K2[0..16). *)
From BMC Require Import Base Prim Layers Layers2 Serialize Packet Conn ConnProofs AcceptProofs.

Theorem C04_accept_sound : forall s o bs m,
  session_verdict s o bs = VFinal m ->
  exists r w, decode_rmcp rmcp_zero bs = Ok r /\ decode_v2session (s_sign s) v2session_zero (rm_payload r) = Ok w /\
    v2_authenticated w = true /\ v2_id w = s_local_id s /\
    (exists k, (k <= length (rm_payload r))%nat /\ v2_signature w = skipn k (rm_payload r) /\
               v2_signature w = s_sign s (firstn k (rm_payload r))) /\
    (v2_encrypted w = true ->
       exists a n, decode_aescbc (s_dec s) aescbc_zero (v2_payload w) = Ok a /\ n <= 16 /\
                   let data := firstn 16 (v2_payload w) ++ cbc_decrypt (s_dec s) (firstn 16 (v2_payload w)) (skipn 16 (v2_payload w)) in
                   get (length (v2_payload w) - 1) data = Ok n /\
                   pad_ok (firstn (N.to_nat n) (skipn (length (v2_payload w) - N.to_nat n - 1) data)) 1 = true /\
                   decode_message message_zero (ae_payload a) = Ok m) /\
    response_matches o m = true.
Proof. exact session_accept_sound. Qed.

(* the forged-reply catalogue: flag cleared / another session's ID / anything that does not decode (wrong, short,
   empty AuthCode; malformed pad; truncation) is "no valid response": the attempt is retried *)
Theorem C04_flag_cleared : forall s o bs w m,
  receive (s_sign s) (Some (s_dec s)) bs = Ok (InMessage w m) -> v2_authenticated w = false ->
  session_verdict s o bs = VRetry.
Proof. exact unauthenticated_is_rejected. Qed.
Theorem C04_other_session : forall s o bs w m,
  receive (s_sign s) (Some (s_dec s)) bs = Ok (InMessage w m) -> v2_id w <> s_local_id s ->
  session_verdict s o bs = VRetry.
Proof. exact other_session_is_rejected. Qed.
Theorem C04_undecodable : forall s o bs,
  receive (s_sign s) (Some (s_dec s)) bs = Err -> session_verdict s o bs = VRetry.
Proof. exact undecodable_is_rejected. Qed.

(* changing any single byte (so any single bit) of an accepted response never changes the value: the command
   completes with the same message, or - spelled out - the integrity algorithm has a collision between the two
   explicit, distinct signed ranges (premise: AuthCodes have a fixed length, as every HMAC truncation has) *)
Theorem C04_single_bit : forall s o L pre a a' post m m',
  (forall x, length (s_sign s x) = L) -> a <> a' ->
  session_verdict s o (pre ++ a :: post) = VFinal m ->
  session_verdict s o (pre ++ a' :: post) = VFinal m' ->
  m = m' \/ exists x x', x <> x' /\ s_sign s x = s_sign s x'.
Proof. exact single_byte_change_needs_collision. Qed.
