(* TieFootprint.v — package-level state (C19) *)
From Coq Require Import List NArith String Bool.
Import ListNotations.
From BMC Require Import Base Prim Layers Layers2 Serialize SpecRequests Packet Conn Handshake Hmac Proc.
From BMCProps Require Export TieBase.
Local Open Scope N_scope.
(* ---- footprint (C19): the only writes to package-level state outside declarations are
   (a) addresses of read-only Operation / PayloadDescriptor values handed out by accessor methods, which the
       library only dereferences, and (b) the map store of RegisterOEMPayloadDescriptor (an init-time registration API) *)
Definition allowed_write (w : string * string * string * string) : bool :=
  let '(pkg, v, fn, kind) := w in
  (String.eqb kind "addr" &&
     (String.prefix "Operation" v || String.prefix "operation" v || String.prefix "PayloadDescriptor" v) &&
     (String.eqb (String.substring (String.length fn - 10) 10 fn) ".Operation"
      || String.eqb (String.substring (String.length fn - 11) 11 fn) ".Descriptor"))
  || (String.eqb v "payloadLayerTypes" && String.eqb fn "RegisterOEMPayloadDescriptor").
(* the package-level variables themselves: a new one (a shared buffer, a pool, a cache) is a change to be looked at *)
Definition expected_package_vars : list string := [
  "bmc.ErrIncorrectPassword";
  "bmc.ErrNoSupportedCipherSuite";
  "bmc.ErrSensorReadingUnavailable";
  "bmc.ErrSensorScanningDisabled";
  "bmc.commandAttempts";
  "bmc.commandDuration";
  "bmc.commandFailures";
  "bmc.commandResponses";
  "bmc.commandRetries";
  "bmc.connectionOpenAttempts";
  "bmc.connectionOpenFailures";
  "bmc.connectionsOpen";
  "bmc.defaultCipherSuites";
  "bmc.errRetryableCode";
  "bmc.errSDRRepositoryModified";
  "bmc.namespace";
  "bmc.serializeOptions";
  "bmc.sessionOpenAttempts";
  "bmc.sessionOpenFailures";
  "bmc.sessionsOpen";
  "bmc.v2ConnectionOpenAttempts";
  "bmc.v2ConnectionOpenFailures";
  "bmc.v2ConnectionsOpen";
  "dcmi.dcmiSensorEntityIDs";
  "dcmi.ipmiSensorEntityIDs";
  "dcmi.layerTypeGetDCMICapabilitiesInfoEnhancedSystemPowerStatisticsAttrsRsp";
  "dcmi.layerTypeGetDCMICapabilitiesInfoManageabilityAccessAttrsRsp";
  "dcmi.layerTypeGetDCMICapabilitiesInfoMandatoryPlatformAttrsRsp";
  "dcmi.layerTypeGetDCMICapabilitiesInfoOptionalPlatformAttrsRsp";
  "dcmi.layerTypeGetDCMICapabilitiesInfoReq";
  "dcmi.layerTypeGetDCMICapabilitiesInfoSupportedCapabilitiesRsp";
  "dcmi.layerTypeGetDCMISensorInfoReq";
  "dcmi.layerTypeGetDCMISensorInfoRsp";
  "dcmi.layerTypeGetPowerReadingReq";
  "dcmi.layerTypeGetPowerReadingRsp";
  "dcmi.operationGetDCMICapabilitiesInfoReq";
  "dcmi.operationGetDCMISensorInfoReq";
  "dcmi.operationGetPowerReadingReq";
  "iana.enterpriseOrganisations";
  "ipmi.CipherSuite17";
  "ipmi.CipherSuite3";
  "ipmi.ErrNotLinearised";
  "ipmi.LayerTypeChassisControlReq";
  "ipmi.LayerTypeCloseSessionReq";
  "ipmi.LayerTypeFullSensorRecord";
  "ipmi.LayerTypeGetChannelAuthenticationCapabilitiesReq";
  "ipmi.LayerTypeGetChannelAuthenticationCapabilitiesRsp";
  "ipmi.LayerTypeGetChannelCipherSuitesReq";
  "ipmi.LayerTypeGetChannelCipherSuitesRsp";
  "ipmi.LayerTypeGetChassisStatusRsp";
  "ipmi.LayerTypeGetDeviceIDRsp";
  "ipmi.LayerTypeGetSDRRepositoryInfoRsp";
  "ipmi.LayerTypeGetSDRReq";
  "ipmi.LayerTypeGetSDRRsp";
  "ipmi.LayerTypeGetSensorReadingReq";
  "ipmi.LayerTypeGetSensorReadingRsp";
  "ipmi.LayerTypeGetSessionInfoReq";
  "ipmi.LayerTypeGetSessionInfoRsp";
  "ipmi.LayerTypeGetSystemGUIDRsp";
  "ipmi.LayerTypeMessage";
  "ipmi.LayerTypeOpenSessionReq";
  "ipmi.LayerTypeOpenSessionRsp";
  "ipmi.LayerTypeRAKPMessage1";
  "ipmi.LayerTypeRAKPMessage2";
  "ipmi.LayerTypeRAKPMessage3";
  "ipmi.LayerTypeRAKPMessage4";
  "ipmi.LayerTypeReserveSDRRepositoryRsp";
  "ipmi.LayerTypeSDR";
  "ipmi.LayerTypeSessionSelector";
  "ipmi.LayerTypeSetSessionPrivilegeLevelReq";
  "ipmi.LayerTypeSetSessionPrivilegeLevelRsp";
  "ipmi.LayerTypeV1Session";
  "ipmi.LayerTypeV2Session";
  "ipmi.OperationChassisControlReq";
  "ipmi.OperationCloseSessionReq";
  "ipmi.OperationGetChannelAuthenticationCapabilitiesReq";
  "ipmi.OperationGetChannelAuthenticationCapabilitiesRsp";
  "ipmi.OperationGetChannelCipherSuitesReq";
  "ipmi.OperationGetChannelCipherSuitesRsp";
  "ipmi.OperationGetChassisStatusReq";
  "ipmi.OperationGetChassisStatusRsp";
  "ipmi.OperationGetDeviceIDReq";
  "ipmi.OperationGetDeviceIDRsp";
  "ipmi.OperationGetSDRRepositoryInfoReq";
  "ipmi.OperationGetSDRRepositoryInfoRsp";
  "ipmi.OperationGetSDRReq";
  "ipmi.OperationGetSDRRsp";
  "ipmi.OperationGetSensorReadingReq";
  "ipmi.OperationGetSensorReadingRsp";
  "ipmi.OperationGetSessionInfoReq";
  "ipmi.OperationGetSessionInfoRsp";
  "ipmi.OperationGetSystemGUIDReq";
  "ipmi.OperationGetSystemGUIDRsp";
  "ipmi.OperationReserveSDRRepositoryReq";
  "ipmi.OperationReserveSDRRepositoryRsp";
  "ipmi.OperationSetSessionPrivilegeLevelReq";
  "ipmi.OperationSetSessionPrivilegeLevelRsp";
  "ipmi.PayloadDescriptorIPMI";
  "ipmi.PayloadDescriptorOpenSessionReq";
  "ipmi.PayloadDescriptorOpenSessionRsp";
  "ipmi.PayloadDescriptorRAKPMessage1";
  "ipmi.PayloadDescriptorRAKPMessage2";
  "ipmi.PayloadDescriptorRAKPMessage3";
  "ipmi.PayloadDescriptorRAKPMessage4";
  "ipmi.analogDataFormatDescriptions";
  "ipmi.analogDataFormatParsers";
  "ipmi.bcdPlusRunes";
  "ipmi.completionCodeDescriptions";
  "ipmi.entityIdDescriptions";
  "ipmi.layerTypeAES128CBC";
  "ipmi.linearisationDescriptions";
  "ipmi.linearisationLinearisers";
  "ipmi.operationLayerTypes";
  "ipmi.outputTypeDescriptions";
  "ipmi.payloadLayerTypes";
  "ipmi.payloadTypeDescriptions";
  "ipmi.rateUnitDurations";
  "ipmi.recordTypeDescriptions";
  "ipmi.recordTypeLayerTypes";
  "ipmi.sensorDirectionDescriptions";
  "ipmi.sensorTypeDescriptions";
  "ipmi.sensorUnitSymbols";
  "ipmi.statusCodeDescriptions";
  "ipmi.stringEncodingDecoders";
  "ipmi.stringEncodingDescriptions";
  "transport.namespace";
  "transport.receiveBytes";
  "transport.responseLatency";
  "transport.subsystem";
  "transport.transmitBytes"
]%string.
(* the reviewed list above is what the source declared when it was reviewed; the premise of the frame theorem needs: every package-level variable is either one of the
   reviewed ones, or it is of a shape that cannot carry hidden mutable state (a value without pointers, a map, a
   slice, a function, a sentinel error - NOT a pointer, an interface, a channel, or anything from sync / sync/atomic
   such as a pool, a mutex, a counter) and the footprint has no write to it and no alias of it.  A new read-only
   table therefore does not stop the proof; a new pool, cache or shared buffer does. *)
Definition benign_kind (k : string) : bool :=
  String.eqb k "value" || String.eqb k "map" || String.eqb k "slice" || String.eqb k "func" || String.eqb k "error".
(* Prometheus collectors, and structs / pointers to structs made only of them: safe for concurrent use by the client
   library's contract; what they count is commutative (C19_counters).  Not to be reassigned, though. *)
Definition metric_kind (k : string) : bool := String.eqb k "metric".
Definition row_mentions (name : string) (w : string * string * string * string) : bool :=
  let '(pkg, v, _, _) := w in String.eqb (String.append pkg (String.append "." v)) name.
Definition var_ok (e : string * string) : bool :=
  let '(name, kind) := e in
  existsb (String.eqb name) expected_package_vars
  || (benign_kind kind && negb (existsb (row_mentions name) G.global_writes) && negb (existsb (row_mentions name) G.global_aliases))
  || (metric_kind kind && negb (existsb (row_mentions name) G.global_writes)).
Lemma tie_package_vars : forallb var_ok G.package_var_kinds = true.
Proof. vm_compute. reflexivity. Qed.
Lemma tie_footprint : forallb allowed_write G.global_writes = true.
Proof. vm_compute. reflexivity. Qed.


(* one level of aliasing: uses of a package-level slice/map/pointer, directly or through a local assigned from it,
   from which the shared backing store could be written.  Today: the default cipher-suite list is aliased by
   determineCipherSuite's parameter, which is only measured, ranged over and - when the CALLER supplied a single
   suite - has the address of its element returned; the two DCMI entity lists are handed to getSensorMap, which
   only ranges over them.  A row of another kind (a call that receives the alias, an append, a store, a return) is a change to look at;
   which function the reviewed uses sit in does not matter. *)
Definition allowed_alias (w : string * string * string * string) : bool :=
  let '(_, v, _, kind) := w in
  (String.eqb v "defaultCipherSuites" && (String.eqb kind "alias" || String.eqb kind "addr"))
  || ((String.eqb v "ipmiSensorEntityIDs" || String.eqb v "dcmiSensorEntityIDs") && String.eqb kind "arg:getSensorMap").
Lemma tie_aliases : forallb allowed_alias G.global_aliases = true.
Proof. vm_compute. reflexivity. Qed.
(* ---- the caller's own values: no function of package bmc writes THROUGH a parameter other than its receiver (a field of
   the caller's *V2SessionOpts / *SessionOpts, an element of its cipher-suite slice, ...), nor re-slices a slice parameter
   to length zero to append into it.  Options and preference lists are shared by callers across connections and
   goroutines; the library only reads them.  (Command values are exempt: a caller hands one over to be written.) *)
Lemma tie_param_writes : G.param_writes = [].
Proof. vm_compute. reflexivity. Qed.
