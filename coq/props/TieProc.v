(* TieProc.v — procedure constants: DCMI entity lists, SDR header/record constants *)
From Coq Require Import List NArith String Bool.
Import ListNotations.
From BMC Require Import Base Prim Layers Layers2 Serialize SpecRequests Packet Conn Handshake Hmac Proc.
From BMCProps Require Export TieBase.
Local Open Scope N_scope.
Lemma tie_entities : G.ipmiSensorEntityIDs = ipmi_entities /\ G.dcmiSensorEntityIDs = dcmi_entities.
Proof. split; reflexivity. Qed.
Lemma tie_sdr_constants : G.sdrHeaderLength = 5 /\ G.sdrMaxLength = 64 /\ G.RecordTypeFullSensor = 1 /\
                          G.RecordIDFirst = 0 /\ G.RecordIDLast = 0xffff.
Proof. repeat split. Qed.

