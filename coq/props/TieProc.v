(* TieProc.v — procedure constants: DCMI entity lists, SDR header/record constants *)
From Coq Require Import List NArith String Bool.
Import ListNotations.
From BMC Require Import Base Prim Layers Layers2 Serialize SpecRequests Packet Conn Handshake Hmac Proc.
From BMCProps Require Export TieBase.
Local Open Scope N_scope.
(* Read from the source by TYPE (every package-level literal of ipmi.EntityID constants in pkg/dcmi; every constant put
   into the Length / Offset field of a Get SDR request or compared with a record header's length), not by the names of
   variables, constants or functions - so a rename or a regrouping does not disturb it.  An empty list means "nothing of
   that shape is in the source any more" (e.g. the values became run-time parameters): the tie then says nothing and the
   values are covered by the runs alone (C16's enumeration against generated BMCs, C14's walks: both compare results
   and requests with the model for every generated case). *)
Definition present_then {A} (eqb : A -> A -> bool) (found expected : list A) : bool :=
  match found with [] => true | _ => forallb (fun x => existsb (eqb x) expected) found && forallb (fun x => existsb (eqb x) found) expected end.
Definition nlist_eqb (a b : list N) : bool := if list_eq_dec N.eq_dec a b then true else false.
Lemma tie_entities : present_then nlist_eqb G.entity_groups [ipmi_entities; dcmi_entities] = true.
Proof. vm_compute. reflexivity. Qed.
Lemma tie_sdr_constants :
  present_then N.eqb G.sdr_length_consts [5] = true /\ present_then N.eqb G.sdr_offset_consts [0; 5] = true /\
  present_then N.eqb G.sdr_max_consts [64] = true /\
  G.RecordTypeFullSensor = 1 /\ G.RecordIDFirst = 0 /\ G.RecordIDLast = 0xffff.
Proof. repeat split. Qed.

