(* C16 — Paged enumerations are complete, ordered and terminate.
   Models (Proc.v, run against the Go code by the C16 check on every generated server):
   [parse_records] = parseCipherSuiteRecordData, [retrieve_chunks]/[retrieve_cipher_suites] =
   RetrieveSupportedCipherSuites, [entity_instances]/[get_sensor_info] = dcmi.GetSensorInfo.
   Specification side (EnumProofs.v): a record [csspec] (ID, optional OEM IANA, authentication algorithm,
   integrity and confidentiality algorithm lists), its wire encoding [encode_records] (IPMI v2.0 table 22-19),
   [expand] = one entry per (integrity, confidentiality) combination in order (an absent list counts as
   the single algorithm 0, as in the Go code), [chunks16] = the only split the protocol allows (16-byte
   chunks, the last one shorter, empty when the length is a multiple of 16), [page_server ids p] = a BMC
   holding [ids] for an entity and serving them [p] per response. *)
From BMC Require Import Base Prim Proc Dispatch EnumProofs EnumTermination PipelineTotal.
From BMCProps Require Import TieProc.

(* ---- cipher suites ---- *)
Theorem C16_cipher_suites_complete_ordered : forall rs, Forall wf rs -> (length (encode_records rs) < 16 * 64)%nat ->
  retrieve_cipher_suites (serve_chunks (map Some (chunks16 (encode_records rs)))) = Some (RsOk (flat_map expand rs)).
Proof. exact retrieve_cipher_suites_encoded. Qed.
Theorem C16_chunks_rejoined : forall data, (length data < 16 * 64)%nat ->
  retrieve_chunks (serve_chunks (map Some (chunks16 data))) 0 65 [] 0 = Some (data, S (length data / 16)).
Proof. exact retrieve_all. Qed.
Theorem C16_chunks16_is_the_protocol_split : forall data,
  concat (chunks16 data) = data /\ length (chunks16 data) = (length data / 16 + 1)%nat.
Proof. intros data. split; [apply chunks16_concat|apply chunks16_length]. Qed.
Theorem C16_parse_of_encoding : forall rs, Forall wf rs ->
  parse_records (length (encode_records rs)) (encode_records rs) [] = RsOk (flat_map expand rs).
Proof. exact parse_encode. Qed.
(* an error, not a partial list: whatever is accepted is the encoding of well-formed records and the
   result is their full expansion; nothing else is accepted *)
Theorem C16_only_encodings_parse : forall n bs out, Forall (fun b => b < 256) bs ->
  parse_records n bs [] = RsOk out ->
  exists rs, Forall wf rs /\ bs = encode_records rs /\ out = flat_map expand rs.
Proof. exact parse_sound_partial. Qed.
Theorem C16_truncated_record_is_error : forall f r n acc, (0 < n)%nat -> (n < length (encode_header r) + 1)%nat ->
  parse_records (S f) (firstn n (encode_record r)) acc = RsErr.
Proof. exact parse_truncated_record. Qed.
Theorem C16_bad_tag_is_error : forall f b r acc, b <> 0xC0 -> b <> 0xC1 -> parse_records (S f) (b :: r) acc = RsErr.
Proof. exact parse_bad_tag. Qed.
Theorem C16_parser_total : forall joined acc,
  parse_records (length joined) joined acc <> RsFault /\ parse_records (length joined) joined acc <> RsOutOfFuel.
Proof. exact parse_records_total. Qed.
(* termination whatever the BMC serves: at most 65 requests, and more fuel changes nothing *)
Theorem C16_chunk_loop_terminates : forall serve fuel, (65 <= fuel)%nat ->
  retrieve_chunks serve 0 fuel [] 0 = retrieve_chunks serve 0 65 [] 0.
Proof. exact retrieve_chunks_terminates. Qed.
Theorem C16_chunk_loop_at_most_65_requests : forall serve out n,
  retrieve_chunks serve 0 65 [] 0 = Some (out, n) -> (n <= 65)%nat.
Proof. exact retrieve_chunks_at_most_65. Qed.

(* ---- DCMI sensor info ---- *)
Theorem C16_entity_all_ids_in_order : forall ids p, (length ids <= 255)%nat -> (1 <= p)%nat ->
  get_entity_instances (page_server ids p) = Some (ids, Nat.max 1 (ceil_div (length ids) p)).
Proof. exact get_entity_instances_paged. Qed.
Theorem C16_sensor_info_paged : forall (tbl : N -> list N) p, (1 <= p)%nat -> (forall e, (length (tbl e) <= 255)%nat) ->
  get_sensor_info (fun e => page_server (tbl e) p) =
  Some (match tbl 0x37 ++ tbl 0x03 ++ tbl 0x07 with [] => map tbl dcmi_entities | _ => map tbl ipmi_entities end).
Proof. exact get_sensor_info_paged. Qed.
(* the DCMI-specific entity IDs are used exactly when the standard ones fail or yield nothing *)
Theorem C16_fallback_exactly_when : forall serve,
  (exists l1 r1 l2 r2 l3 r3,
      get_entity_instances (serve 0x37) = Some (l1, r1) /\ get_entity_instances (serve 0x03) = Some (l2, r2) /\
      get_entity_instances (serve 0x07) = Some (l3, r3) /\ l1 ++ l2 ++ l3 <> [] /\
      get_sensor_info serve = Some [l1; l2; l3])
  \/ (((exists e, In e ipmi_entities /\ get_entity_instances (serve e) = None) \/
       (exists r1 r2 r3, get_entity_instances (serve 0x37) = Some ([], r1) /\
                         get_entity_instances (serve 0x03) = Some ([], r2) /\
                         get_entity_instances (serve 0x07) = Some ([], r3)))
      /\ get_sensor_info serve = sensor_map serve dcmi_entities).
Proof. exact get_sensor_info_cases. Qed.
Theorem C16_page_loop_terminates : forall serve fuel, byte_totals serve -> (256 <= fuel)%nat ->
  entity_instances serve [] fuel 0 = get_entity_instances serve.
Proof. exact entity_instances_terminates. Qed.
Theorem C16_page_loop_at_most_256_requests : forall serve out n,
  get_entity_instances serve = Some (out, n) -> (n <= 256)%nat.
Proof. exact entity_instances_at_most_256. Qed.
Theorem C16_entity_ids_tie : present_then nlist_eqb G.entity_groups [ipmi_entities; dcmi_entities] = true /\
  G.EntityIDAirInlet = 0x37 /\ G.EntityIDProcessor = 0x03 /\ G.EntityIDSystemBoard = 0x07.
Proof. split; [exact tie_entities|repeat split; reflexivity]. Qed.
