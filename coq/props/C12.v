From BMC Require Import Base.
Theorem C12_placeholder : True. Proof. exact I. Qed.
