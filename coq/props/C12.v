(* C12 — the cipher suite used is the caller's first supported preference, never another. *)
From BMC Require Import Base Prim Layers Layers2 Serialize Packet Conn Hmac Handshake HandshakeProofs.
From BMCProps Require Import TieSuites.

(* one preference: proposed as is, without discovery *)
Theorem C12_single : forall x a, determine [x] a = Chosen x false.
Proof. exact determine_single. Qed.
(* no preference: as if the caller had given the defaults, which are suite 17 then suite 3 in the source now *)
Theorem C12_defaults : forall a, determine [] a = determine default_suites a.
Proof. exact determine_default. Qed.
Theorem C12_defaults_tie : map (fun s => (su_auth s, su_integ s, su_conf s)) default_suites = G.defaultCipherSuites
                           /\ G.CipherSuite17 = (3, 4, 1) /\ G.CipherSuite3 = (1, 1, 1).
Proof. split; [exact tie_default_suites|split; reflexivity]. Qed.
(* several preferences (lists of any length, any advertised list): the chosen suite is the first one the BMC
   advertises - everything before it in the list is not advertised - after discovery *)
Theorem C12_first_supported : forall x y rest a s d,
  determine (x :: y :: rest) a = Chosen s d ->
  d = true /\ exists pre post, x :: y :: rest = pre ++ s :: post /\
                               Forall (fun z => advertised a z = false) pre /\ advertised a s = true.
Proof. exact determine_first_supported. Qed.
Theorem C12_none_supported : forall x y rest a,
  determine (x :: y :: rest) a = NoSupportedSuite <-> Forall (fun z => advertised a z = false) (x :: y :: rest).
Proof. exact determine_none. Qed.

(* a session is only returned if the Open Session Response confirmed exactly the proposed algorithms (whatever
   else was received), and the session uses them; integrity / confidentiality None never yield a session *)
Theorem C12_confirm : forall o s random sc1 sc2 sc3 sent e,
  new_session o s random sc1 sc2 sc3 = (sent, inl e) ->
  es_suite e = s /\ su_conf s = 1 /\ su_integ s <> 0 /\
  exists rsp b1 p1, In (Some b1) sc1 /\ payload_verdict b1 = PAccept p1 /\
                    decode_opensessionrsp opensessionrsp_zero p1 = Ok rsp /\
                    ap_alg (os_auth rsp) = su_auth s /\ ap_alg (os_integ rsp) = su_integ s /\ ap_alg (os_conf rsp) = su_conf s.
Proof.
  intros o s random sc1 sc2 sc3 sent e H.
  destruct (new_session_ok_inv _ _ _ _ _ _ _ _ H) as [rsp [m2 [m4 [h [icvlen [b1 [p1 [b2 [p2 [b3 [p3 F]]]]]]]]]]].
  destruct F as ((I1 & V1 & D1) & _ & _ & _ & (A1 & A2 & A3) & _ & _ & _ & _ & _ & _ & _ & _ & (S1 & S2 & S3)).
  repeat split; auto. exists rsp, b1, p1. repeat split; auto.
Qed.
(* and a response carrying any other triple is an error, never a fault (C05_handshake) *)
Theorem C12_other_triple_is_error : forall o s random sc1 sc2 sc3 sent rsp b1 p1,
  sc1 = [Some b1] -> payload_verdict b1 = PAccept p1 -> decode_opensessionrsp opensessionrsp_zero p1 = Ok rsp ->
  (ap_alg (os_auth rsp), ap_alg (os_integ rsp), ap_alg (os_conf rsp)) <> (su_auth s, su_integ s, su_conf s) ->
  forall e, new_session o s random sc1 sc2 sc3 <> (sent, inl e).
Proof.
  intros o s random sc1 sc2 sc3 sent rsp b1 p1 -> V D Hne e H.
  destruct (new_session_ok_inv _ _ _ _ _ _ _ _ H) as [rsp' [m2 [m4 [h [icvlen [b1' [p1' [b2 [p2 [b3 [p3 F]]]]]]]]]]].
  destruct F as ((I1 & V1 & D1) & _ & _ & _ & (A1 & A2 & A3) & _).
  destruct I1 as [E|[]]. injection E as <-. rewrite V in V1. injection V1 as <-. rewrite D in D1. injection D1 as <-.
  apply Hne. rewrite A1, A2, A3. reflexivity.
Qed.
(* whatever the caller proposes and the BMC confirms, a session exists only for an implemented suite: every other
   authentication, integrity or confidentiality number ends in an error (never a fault: C05_handshake), with no session *)
Theorem C12_only_implemented_suites : forall o s random sc1 sc2 sc3 sent e,
  new_session o s random sc1 sc2 sc3 = (sent, inl e) ->
  In (su_auth s) [1; 2; 3] /\ In (su_integ s) [1; 2; 4] /\ su_conf s = 1.
Proof. exact new_session_implemented. Qed.
(* the algorithm number the BMC confirms is the low six bits of the payload byte: the reserved bits 7:6 are ignored, bit 5
   counts (so "proposed number + 32" is another algorithm and, by C12_other_triple_is_error, refused) *)
Theorem C12_algorithm_number_is_six_bits : forall tag d0 d1 d2 d3 d4 d5 d6 d7 a,
  d4 < 256 ->
  deserialise_alg tag [d0; d1; d2; d3; d4; d5; d6; d7] = Ok a -> ap_alg a = d4 mod 64 /\ ap_alg a < 64.
Proof. exact alg_number_is_six_bits. Qed.
Theorem C12_reserved_bits_ignored : forall tag d0 d1 d2 d3 d4 d5 d6 d7 hi,
  d4 < 64 -> hi < 4 ->
  deserialise_alg tag [d0; d1; d2; d3; d4 + 64 * hi; d5; d6; d7] = deserialise_alg tag [d0; d1; d2; d3; d4; d5; d6; d7].
Proof. exact alg_reserved_bits_ignored. Qed.
