(* C11 — a result always comes from a response to the command that was sent. *)
From BMC Require Import Base Prim Layers Layers2 Serialize Packet Conn ConnProofs.

(* whatever datagrams the reads return (duplicated, delayed, unsolicited replies are just
   bytes in the script), a command's result is a message that one of this command's own
   reads returned, whose network function is the request's + 1 and whose command number,
   group body code and OEM number are the request's *)
Theorem C11_sessionless : forall pkt o script m,
  lr_outcome (sessionless_loop pkt o script [] []) = OFinal m ->
  (exists bs w, In (Some bs) script /\ receive nil_sign None bs = Ok (InMessage w m)) /\
  m_function m = u8 (op_fn o + 1) /\ m_command m = op_cmd o /\ m_body m = op_body o /\ m_enterprise m = op_ent o.
Proof.
  intros pkt o script m H.
  destruct (sessionless_loop_origin pkt o script [] [] m H) as [pre [bs [post [E [_ V]]]]].
  destruct (sessionless_verdict_final o bs m V) as [RM [_ [w R]]]. split.
  - exists bs, w. split; [subst script; apply in_or_app; right; left; reflexivity|exact R].
  - apply response_matches_spec. exact RM.
Qed.

Theorem C11_session : forall s o lun body script seq ivs sent codes m,
  lr_outcome (session_loop s o lun body seq ivs script sent codes) = OFinal m ->
  (exists bs w, In (Some bs) script /\ receive (s_sign s) (Some (s_dec s)) bs = Ok (InMessage w m)
                /\ v2_id w = s_local_id s /\ v2_authenticated w = true) /\
  m_function m = u8 (op_fn o + 1) /\ m_command m = op_cmd o /\ m_body m = op_body o /\ m_enterprise m = op_ent o.
Proof.
  intros s o lun body script seq ivs sent codes m H.
  destruct (session_loop_origin s o lun body script seq ivs sent codes m H) as [bs [Hin V]].
  destruct (session_verdict_final s o bs m V) as [RM [_ [w [R [I A]]]]]. split.
  - exists bs, w. auto.
  - apply response_matches_spec. exact RM.
Qed.

(* a reply that belongs to another command never completes this one: it is treated like an undecodable reply *)
Theorem C11_other_command_is_retried : forall o bs w m,
  receive nil_sign None bs = Ok (InMessage w m) -> response_matches o m = false ->
  sessionless_verdict o bs = VRetry.
Proof. intros o bs w m R RM. unfold sessionless_verdict. rewrite R, RM. reflexivity. Qed.
