(* TieCrypto.v — handshake constants and the algorithm tables of authenticator.go, hasher.go, confidentiality.go *)
From Coq Require Import List NArith String Bool.
Import ListNotations.
From BMC Require Import Base Prim Layers Layers2 Serialize SpecRequests Packet Conn Handshake Hmac Proc.
From BMCProps Require Export TieBase.
Local Open Scope N_scope.
Lemma tie_k_constant : forall n, k_const n = repeat (u8 n) (N.to_nat G.kConstantLength).
Proof. reflexivity. Qed.

(* algorithm tables (authenticator.go, hasher.go, confidentiality.go), normalised by the translator so that the form
   of the code (switch, map, named constants, order of the alternatives) does not matter: per algorithm code the hash
   constructor named (1 = sha1.New, 2 = md5.New, 3 = sha256.New, 0 = none), the integer constants mentioned, and
   whether the alternative builds an error; the default alternative has no key and comes last *)
Lemma tie_auth_table :
  G.auth_table = [([1], (1, [12], false)); ([2], (2, [], false)); ([3], (3, [16], false)); ([], (0, [], true))]
  /\ auth_params 1 = Some (1, 12%nat) /\ auth_params 3 = Some (3, 16%nat) /\ auth_params 2 = Some (2, 0%nat).
Proof. repeat split. Qed.
(* integrity: HMAC with the named hash keyed with K(1), truncated to 12 / untruncated / 16 bytes; None is refused *)
Lemma tie_integrity_table :
  G.integrity_table = [([0], (0, [], true)); ([1], (1, [1; 12], false)); ([2], (2, [1], false)); ([4], (3, [1; 16], false));
                       ([], (0, [], true))]
  /\ integrity_params 1 = Some (Some (1, 12%nat)) /\ integrity_params 2 = Some (Some (2, 16%nat))
  /\ integrity_params 4 = Some (Some (3, 16%nat)).
Proof. repeat split. Qed.
(* confidentiality: AES-128-CBC keyed with the first 16 bytes of K(2); None is refused *)
Lemma tie_confidentiality_table :
  G.confidentiality_table = [([0], (0, [], true)); ([1], (0, [16; 2], false)); ([], (0, [], true))].
Proof. reflexivity. Qed.
