(* TieCrypto.v — handshake constants and the algorithm tables of authenticator.go, hasher.go, confidentiality.go *)
From Coq Require Import List NArith String Bool.
Import ListNotations.
From BMC Require Import Base Prim Layers Layers2 Serialize SpecRequests Packet Conn Handshake Hmac Proc.
From BMCProps Require Export TieBase.
Local Open Scope N_scope.
Lemma tie_k_constant : forall n, k_const n = repeat (u8 n) (N.to_nat G.kConstantLength).
Proof. reflexivity. Qed.

Lemma tie_default_suites :
  map (fun s => (su_auth s, su_integ s, su_conf s)) default_suites = G.defaultCipherSuites.
Proof. reflexivity. Qed.


(* algorithm tables (authenticator.go, hasher.go, confidentiality.go): hash and truncation per algorithm code *)
Lemma tie_auth_table :
  G.auth_table = [([1], "sha1.New 12 nil"); ([3], "sha256.New 16 nil"); ([2], "md5.New nil"); ([], "nil fmt.Errorf")]%string
  /\ auth_params 1 = Some (1, 12%nat) /\ auth_params 3 = Some (3, 16%nat) /\ auth_params 2 = Some (2, 0%nat).
Proof. repeat split. Qed.
Lemma tie_integrity_table :
  G.integrity_table = [([0], "nil fmt.Errorf"); ([1], "hmac.New sha1.New _.K 1 12 nil"); ([2], "hmac.New md5.New _.K 1 nil");
                       ([4], "hmac.New sha256.New _.K 1 16 nil"); ([], "nil fmt.Errorf")]%string
  /\ integrity_params 1 = Some (Some (1, 12%nat)) /\ integrity_params 2 = Some (Some (2, 16%nat))
  /\ integrity_params 4 = Some (Some (3, 16%nat)).
Proof. repeat split. Qed.
Lemma tie_confidentiality_table :
  G.confidentiality_table = [([0], "nil fmt.Errorf"); ([1], "16 _.K 2 ipmi.NewAES128CBC"); ([], "nil fmt.Errorf")]%string.
Proof. reflexivity. Qed.

