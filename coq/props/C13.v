From BMC Require Import Base.
Theorem C13_placeholder : True. Proof. exact I. Qed.
