(* C13 — blocking calls never outlive their context: the deadline arithmetic
   of the retry loop (PARTIAL: wall-clock behaviour of runtime and kernel is
   measured by the correspondence run, not proved).  [retry t D T atts sleeps]:
   start time, context deadline, per-attempt timeout, what each attempt would
   take and whether its reply is a valid final response, the back-off sleeps. *)
From BMC Require Import Base Timing.

Theorem C13_deadline : forall atts sleeps t D T, cr_end (retry t D T atts sleeps) <= N.max D t.
Proof. exact retry_deadline. Qed.
Theorem C13_expired : forall atts sleeps t D T, D <= t -> atts <> [] ->
  let r := retry t D T atts sleeps in
  cr_end r = t /\ cr_attempts r = 1%nat /\ (cr_ok r = true -> exists rest, atts = (0, true) :: rest).
Proof. exact retry_expired. Qed.
Theorem C13_no_false_success : forall atts sleeps t D T,
  cr_ok (retry t D T atts sleeps) = true -> exists d, In (d, true) atts /\ d <= T.
Proof. exact retry_no_false_success. Qed.
Theorem C13_terminates : forall atts sleeps t D T smin,
  0 < smin -> Forall (fun s => smin <= s) sleeps -> t <= D ->
  N.of_nat (cr_attempts (retry t D T atts sleeps)) <= 1 + (D - t) / smin.
Proof. exact retry_attempts_bounded. Qed.
