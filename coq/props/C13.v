(* C13 — blocking calls never outlive their context: the deadline arithmetic
   of the retry loop (PARTIAL: wall-clock behaviour of runtime and kernel is
   measured by the correspondence run, not proved).  [retry t D T atts sleeps]:
   start time, context deadline, per-attempt timeout, what each attempt would
   take and whether its reply is a valid final response, the back-off sleeps. *)
From BMC Require Import Base Timing.

Theorem C13_deadline : forall atts sleeps t D T, cr_end (retry t D T atts sleeps) <= N.max D t.
Proof. exact retry_deadline. Qed.
Theorem C13_expired : forall atts sleeps t D T, D <= t -> atts <> [] ->
  let r := retry t D T atts sleeps in
  cr_end r = t /\ cr_attempts r = 1%nat /\ (cr_ok r = true -> exists rest, atts = (0, true) :: rest).
Proof. exact retry_expired. Qed.
Theorem C13_no_false_success : forall atts sleeps t D T,
  cr_ok (retry t D T atts sleeps) = true -> exists d, In (d, true) atts /\ d <= T.
Proof. exact retry_no_false_success. Qed.
Theorem C13_terminates : forall atts sleeps t D T smin,
  0 < smin -> Forall (fun s => smin <= s) sleeps -> t <= D ->
  N.of_nat (cr_attempts (retry t D T atts sleeps)) <= 1 + (D - t) / smin.
Proof. exact retry_attempts_bounded. Qed.

(* ---- the blocking calls that are compositions of retry loops (TimingProc.v) ---- *)
From BMC Require Import TimingProc.

(* the loop with the three outcomes the two command loops distinguish; outside a session it is the loop above *)
Theorem C13_three_outcome_loop_is_retry : forall atts sleeps t D T,
  retry_k false t D T atts sleeps = retry t D T (map forget atts) sleeps.
Proof. exact retry_k_sessionless. Qed.
Theorem C13_loop_deadline : forall sess atts sleeps t D T,
  t <= cr_end (retry_k sess t D T atts sleeps) <= N.max D t.
Proof. exact retry_k_bounds. Qed.
Theorem C13_loop_no_false_success : forall sess atts sleeps t D T,
  cr_ok (retry_k sess t D T atts sleeps) = true -> exists d, In (d, Final) atts /\ d <= T.
Proof. exact retry_k_no_false_success. Qed.
Theorem C13_loop_expired : forall sess atts sleeps t D T, D <= t -> atts <> [] ->
  let r := retry_k sess t D T atts sleeps in
  cr_end r = t /\ cr_attempts r = 1%nat /\ (cr_ok r = true -> exists rest, atts = (0, Final) :: rest).
Proof. exact retry_k_expired. Qed.
(* in-session command, session close: a reply that does not arrive in its window ends the call after that one attempt *)
Theorem C13_session_loss_is_terminal : forall d k rest sleeps t D T,
  N.min T (D - t) < d ->
  let r := retry_k true t D T ((d, k) :: rest) sleeps in
  cr_ok r = false /\ cr_attempts r = 1%nat /\ cr_end r = t + N.min T (D - t).
Proof. exact retry_k_session_loss_terminal. Qed.

(* session handshake (discovery, Open Session, RAKP 1, RAKP 3), one round of the SDR walk: any number of exchanges under
   one context, for any outcomes and back-off sleeps *)
Theorem C13_procedure_deadline : forall sess calls t D T,
  t <= pr_end (run_calls sess t D T calls) <= N.max D t.
Proof. exact run_calls_bounds. Qed.
Theorem C13_procedure_no_false_success : forall sess calls t D T,
  pr_ok (run_calls sess t D T calls) = true ->
  Forall (fun c : call => exists d, In (d, Final) (fst c) /\ d <= T) calls.
Proof. exact run_calls_no_false_success. Qed.
Theorem C13_procedure_expired : forall sess calls t D T, D <= t -> Forall (fun c : call => fst c <> []) calls ->
  let p := run_calls sess t D T calls in
  pr_end p = t /\ pr_attempts p = pr_calls p /\
  (calls <> [] -> pr_ok p = true -> Forall (fun c : call => exists rest, fst c = (0, Final) :: rest) calls).
Proof. exact run_calls_expired. Qed.
Theorem C13_procedure_stops_at_first_failure : forall sess calls t D T,
  pr_ok (run_calls sess t D T calls) = false -> (pr_calls (run_calls sess t D T calls) <= length calls)%nat /\
  exists pre c post, calls = pre ++ c :: post /\ length pre = pred (pr_calls (run_calls sess t D T calls)) /\
    pr_ok (run_calls sess t D T pre) = true /\
    cr_ok (retry_k sess (pr_end (run_calls sess t D T pre)) D T (fst c) (snd c)) = false.
Proof. exact run_calls_stop_at_failure. Qed.

(* SDR repository retrieval: backoff.Retry around whole rounds of in-session exchanges *)
Theorem C13_outer_loop_deadline : forall D rounds sleeps t, Forall (op_bounded D) rounds ->
  t <= cr_end (outer t D rounds sleeps) <= N.max D t.
Proof. exact outer_bounds. Qed.
Theorem C13_retrieval_deadline : forall rounds sleeps t D T,
  t <= cr_end (retrieval t D T rounds sleeps) <= N.max D t.
Proof. exact retrieval_bounds. Qed.
Theorem C13_retrieval_no_false_success : forall rounds sleeps t D T,
  cr_ok (retrieval t D T rounds sleeps) = true ->
  exists round, In round rounds /\ Forall (fun c : call => exists d, In (d, Final) (fst c) /\ d <= T) round.
Proof. exact retrieval_no_false_success. Qed.

(* the converse of "no false success": when the deadline allows, the call does complete - at the first attempt that meets a
   final reply within the per-attempt timeout, with exactly that many transmissions, at exactly the time the earlier
   attempts and sleeps add up to (a legal network that loses datagrams does not make a command fail while its context lives) *)
Theorem C13_completes_when_deadline_allows : forall sess pre sl d post srest t D T,
  length sl = length pre ->
  Forall (fun a : attempt_k => is_final (snd a) && (fst a <=? T) = false) pre ->
  (sess = true -> Forall (fun a : attempt_k => fst a <= T) pre) ->
  d <= T -> t + spent T pre sl + d < D ->
  let r := retry_k sess t D T (pre ++ (d, Final) :: post) (sl ++ srest) in
  cr_ok r = true /\ cr_attempts r = S (length pre) /\ cr_end r = t + spent T pre sl + d.
Proof. exact retry_k_completes. Qed.
(* and the fault-free procedure (every exchange answered at once within the timeout, the delays fit before the deadline)
   succeeds with one transmission per exchange *)
Theorem C13_fault_free_procedure_succeeds : forall sess ds t D T (tails : list (list attempt_k * list N)),
  length tails = length ds ->
  Forall (fun d => d <= T) ds -> t + total_delay ds < D ->
  let calls := map (fun x : N * (list attempt_k * list N) => ((fst x, Final) :: fst (snd x), snd (snd x))) (combine ds tails) in
  let p := run_calls sess t D T calls in
  pr_ok p = true /\ pr_calls p = length ds /\ pr_attempts p = length ds /\ pr_end p = t + total_delay ds.
Proof. exact run_calls_fault_free. Qed.
