(* C14 — SDR repository retrieval returns one consistent, complete set of
   records.  A repository is a list of (record ID, full record bytes) in
   storage order, served with Next-chaining ([serve_sdr]); [wf_repo]: IDs
   distinct and < 0xFFFF, each record starts with its 5-byte header, bodies
   of Full Sensor Records decode; [walkable]: non-empty and only the first
   record may carry ID 0000h (which Get SDR reserves for "the first record"). *)
From BMC Require Import Base Prim Layers Proc Dispatch SdrProofs.
From BMCProps Require Import TieProc.

(* the walk returns exactly the Full Sensor Records, in storage order, each under the record's OWN ID
   (also when the first record's ID is not 0), each field the reference decoding of the body; the fuel
   (number of records + 1) is never exhausted *)
Theorem C14_complete : forall recs rid, wf_repo recs -> walkable recs ->
  walk (serve_sdr recs) rid 0 (length recs + 1) [] = WOk (full_records recs).
Proof. exact walk_complete. Qed.
Theorem C14_each_once : forall recs, wf_repo recs -> NoDup (map fst (full_records recs)).
Proof. exact full_records_nodup. Qed.
Theorem C14_reference_decoding : forall recs id r, wf_repo recs -> In (id, r) (full_records recs) ->
  exists data, In (id, data) recs /\ rec_type data = 0x01 /\ decode_fsr fsr_zero (rec_body data) = Ok r.
Proof. exact full_records_decoded. Qed.

(* one round of RetrieveSDRRepository (info, reserve, walk, info): a result is returned only if the walk
   succeeded under one reservation and neither timestamp advanced between the two info answers; otherwise the
   partial result is discarded (None = the round is retried) *)
Theorem C14_snapshot : forall info0 info1 reserve get fuel m,
  retrieve_round info0 info1 reserve get fuel = Some m ->
  exists add0 erase0 add1 erase1 rid,
    info0 = Some (add0, erase0) /\ info1 = Some (add1, erase1) /\ add1 <= add0 /\ erase1 <= erase0 /\
    reserve tt = Some rid /\ walk get rid 0 fuel [] = WOk m.
Proof. exact retrieve_round_some. Qed.
Theorem C14_modified_is_discarded : forall add0 erase0 add1 erase1 reserve get fuel,
  add0 < add1 \/ erase0 < erase1 ->
  retrieve_round (Some (add0, erase0)) (Some (add1, erase1)) reserve get fuel = None.
Proof. exact retrieve_round_stale. Qed.

(* the outer retry loop: whatever happened in earlier rounds, the result is that of ONE round in which both info
   answers arrived, no timestamp advanced and the walk succeeded under one reservation; earlier rounds are discarded
   entirely (no mixture of repository states) *)
Theorem C14_result_is_one_round : forall rounds fuel m, retrieve rounds fuel = Some m ->
  exists pre r post add0 erase0 add1 erase1 rid,
    rounds = pre ++ r :: post /\
    Forall (fun q => retrieve_round (rd_info0 q) (rd_info1 q) (rd_reserve q) (rd_get q) fuel = None) pre /\
    rd_info0 r = Some (add0, erase0) /\ rd_info1 r = Some (add1, erase1) /\ add1 <= add0 /\ erase1 <= erase0 /\
    rd_reserve r tt = Some rid /\ walk (rd_get r) rid 0 fuel [] = WOk m.
Proof. exact retrieve_is_one_round. Qed.
(* and a repository that holds still for one round is returned completely by that round *)
Theorem C14_quiet_round_is_complete : forall pre recs info reserve add erase rid post,
  wf_repo recs -> walkable recs -> info = Some (add, erase) -> reserve tt = Some rid ->
  Forall (fun q => retrieve_round (rd_info0 q) (rd_info1 q) (rd_reserve q) (rd_get q) (length recs + 1) = None) pre ->
  retrieve (pre ++ {| rd_info0 := info; rd_info1 := info; rd_reserve := reserve; rd_get := serve_sdr recs |} :: post)
           (length recs + 1) = Some (full_records recs).
Proof. exact retrieve_quiet_round. Qed.

(* the faithful model refutes the statement without [walkable]: a later record with ID 0000h sends the walk
   back to the first record for ever (in the Go code: until the caller's context expires) *)
Theorem C14_id_zero_later_refuted : forall rid f acc, walk (serve_sdr cx_repo) rid 0 f acc = WOutOfFuel.
Proof. exact walk_cx_repo_loops. Qed.

Theorem C14_constants_tie :
  present_then N.eqb G.sdr_length_consts [5] = true /\ present_then N.eqb G.sdr_offset_consts [0; 5] = true /\
  present_then N.eqb G.sdr_max_consts [64] = true /\
  G.RecordTypeFullSensor = 1 /\ G.RecordIDFirst = 0 /\ G.RecordIDLast = 0xffff.
Proof. exact tie_sdr_constants. Qed.
