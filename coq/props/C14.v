From BMC Require Import Base.
Theorem C14_placeholder : True. Proof. exact I. Qed.
