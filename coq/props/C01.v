(* C01 — Session establishment agrees on keys with every conforming BMC.
   Console side: [Handshake.new_session] = newV2Session after the suite has been determined (the model is
   replayed against the Go code on every handshake the C01/C02/C12 checks run).  BMC side: [SpecBmc.Bmc], a
   managed system written from IPMI v2.0 13.17-13.23 and 13.28-13.32, deriving everything from its own view
   of the exchange (stored user key zero-padded to 20 bytes, its own random number, GUID and session ID,
   the bytes it received).  HMAC-MD5/SHA1/SHA256 are the Gallina implementations of Md5.v/Sha1.v/Sha256.v
   (validated against the RFC vectors and crypto/* by the checks); the theorem does not depend on which
   functions they are, only on both sides applying the same function to the same bytes. *)
From BMC Require Import Base Prim Layers Layers2 Serialize Packet Conn Hmac Handshake HandshakeProofs ChannelFacts SpecBmc KeyAgreement.
From BMC Require Import RequestProofs SessionUse Aes ReplyAccepted.
From BMCProps Require Import TieCrypto.

(* for every supported suite (authentication SHA1/MD5/SHA256 x integrity SHA1-96/MD5-128/SHA256-128 x AES-CBC-128,
   which includes suites 17 and 3), every user name of 0..16 bytes, password of 0..20 bytes, KG absent or 20
   bytes, privilege level 0..15, both lookup modes, every console random, BMC random, GUID and BMC session ID:
   the three payloads the console transmits are accepted by the BMC, the three it answers are accepted by the
   console, a session is returned, and its SIK, K1, K2, IDs and algorithms are the BMC's *)
Theorem C01_key_agreement :
  forall (o : session_opts) (s : suite) (random rc : bytes) (new_id : N) (cfg : Bmc.config)
         (supported : N -> N -> N -> bool) (pwb : bytes),
  In (su_auth s) [1; 2; 3] -> In (su_integ s) [1; 2; 4] -> su_conf s = 1 ->
  supported (su_auth s) (su_integ s) (su_conf s) = true ->
  so_priv o < 16 -> (length (so_user o) <= 16)%nat -> length random = 16%nat -> length rc = 16%nat ->
  length (Bmc.guid cfg) = 16%nat -> new_id < 4294967296 ->
  Bmc.find_user cfg (role_of o) (so_user o) = Some pwb ->
  Bmc.pad20 pwb = Bmc.pad20 (so_password o) ->
  (length pwb <= 20)%nat /\ (length (so_password o) <= 20)%nat ->
  Bmc.kg cfg = so_kg o /\ (so_kg o = [] \/ length (so_kg o) = 20%nat) ->
  exists q1 r1 pend d1 q2 r2 half d2 q3 r4 act d3 sent e k1 k2 k3,
    payload_packet 0x10 q1 = Ok k1 /\ payload_packet 0x12 q2 = Ok k2 /\ payload_packet 0x14 q3 = Ok k3 /\
    sent = [k1; k2; k3] /\
    ser_opensessionreq (open_request o s) [] = Ok q1 /\
    Bmc.open_session supported q1 new_id = Some (r1, Some pend) /\ payload_packet 0x11 r1 = Ok d1 /\
    ser_rakp1 (m1 o s random new_id) [] = Ok q2 /\
    Bmc.rakp1 cfg pend q2 rc = Some (r2, Some half) /\ payload_packet 0x13 r2 = Ok d2 /\
    Bmc.rakp3 cfg half q3 = Some (r4, Some act) /\ payload_packet 0x15 r4 = Ok d3 /\
    new_session o s random [Some d1] [Some d2] [Some d3] = (sent, inl e) /\
    es_sik e = Bmc.a_sik act /\ es_k1 e = Bmc.a_k1 act /\ es_k2 e = Bmc.a_k2 act /\
    es_remote_id e = Bmc.a_bmc_id act /\ es_local_id e = Bmc.a_console_id act /\
    es_suite e = s /\ Bmc.a_integ act = su_integ s /\ Bmc.a_conf act = su_conf s /\
    Bmc.a_bmc_id act = new_id /\ es_aes_key e = aes_key_of (es_k2 e).
Proof. exact key_agreement. Qed.

(* ... and every command subsequently sent on that session (any sequence number, IV, command, LUN, body that fits
   the wrapper's length field) passes the BMC's integrity check and decryption and is read by the BMC as exactly
   the command the caller asked for.  No premise about AES or the hashes: AES-128 invertibility and the byte range
   / length of HMAC outputs are proved (AesInverse.v, HashBytes.v).  That the reply is then returned: C01_reply_is_returned below. *)
Theorem C01_commands_accepted :
  forall (o : session_opts) (s : suite) (random rc : bytes) (new_id : N) (cfg : Bmc.config)
         (supported : N -> N -> N -> bool) (pwb : bytes),
  In (su_auth s) [1; 2; 3] -> In (su_integ s) [1; 2; 4] -> su_conf s = 1 ->
  supported (su_auth s) (su_integ s) (su_conf s) = true ->
  so_priv o < 16 -> (length (so_user o) <= 16)%nat -> length random = 16%nat -> length rc = 16%nat ->
  length (Bmc.guid cfg) = 16%nat -> new_id < 4294967296 ->
  Bmc.find_user cfg (role_of o) (so_user o) = Some pwb ->
  Bmc.pad20 pwb = Bmc.pad20 (so_password o) ->
  (length pwb <= 20)%nat /\ (length (so_password o) <= 20)%nat ->
  Bmc.kg cfg = so_kg o /\ (so_kg o = [] \/ length (so_kg o) = 20%nat) ->
  exists d1 d2 d3 sent e act sess,
    (* the handshake of C01_key_agreement: console session [e], BMC session [act] *)
    new_session o s random [Some d1] [Some d2] [Some d3] = (sent, inl e) /\
    es_sik e = Bmc.a_sik act /\ es_k1 e = Bmc.a_k1 act /\ es_k2 e = Bmc.a_k2 act /\
    session_of e = Some sess /\
    (* every command on it *)
    forall seq iv op lun body pkt,
      seq < 4294967296 -> length iv = 16%nat -> Forall (fun b => b < 256) iv -> Forall (fun b => b < 256) body ->
      op_fn op < 64 -> op_fn op mod 2 = 0 -> op_fn op <> 0x2e -> op_cmd op < 256 -> lun < 4 ->
      (op_fn op = 0x2c -> op_body op < 256) -> request_message_length op body < 65504 ->
      session_command_packet sess seq iv op lun body = Ok pkt ->
      Bmc.accept act pkt = Some (iv, seq, expected_lanreq op lun body).
Proof. exact established_commands_accepted. Qed.

(* ... and its response is returned to the caller: a reply the BMC builds as IPMI v2.0 prescribes with the session's
   keys ([reply_packet]: response message with both checksums | AES-128-CBC | wrapper addressed to the console's
   session ID, encrypted + authenticated, AuthCode by the negotiated algorithm) completes the command at its first
   delivery with exactly the BMC's completion code and data, after exactly one transmission; a temporary code
   (C0h / C3h) is reported as temporary instead (and retried, C10).  Every sign function, every sequence number. *)
Theorem C01_reply_is_returned : forall (s : session) o lun body seq0 ivs rest bseq biv code data pkt key,
  s_enc s = aes128_encrypt_block key -> s_dec s = aes128_decrypt_block key -> length key = 16%nat -> Forall (fun b => b < 256) key ->
  s_local_id s < 4294967296 -> length biv = 16%nat -> Forall (fun b => b < 256) biv -> Forall (fun b => b < 256) data ->
  op_fn o < 64 -> op_fn o mod 2 = 0 -> op_cmd o < 256 -> lun < 4 -> code < 256 -> op_body o < 256 ->
  (op_fn o <> 0x2c -> op_body o = 0) -> op_ent o < 16777216 -> (op_fn o <> 0x2e -> op_ent o = 0) ->
  response_message_length o data < 65504 -> code <> 0xc0 -> code <> 0xc3 ->
  reply_packet s bseq biv o lun code data = Ok pkt ->
  let r := session_loop s o lun body seq0 ivs (Some pkt :: rest) [] [] in
  exists m req,
    lr_outcome r = OFinal m /\ m_code m = code /\ m_payload m = data /\ response_matches o m = true /\
    session_command_packet s (u32 (seq0 + 1)) (hd (zeros 16) ivs) o lun body = Ok req /\
    lr_sent r = [req] /\ length (lr_sent r) = 1%nat /\ lr_codes r = [code] /\ lr_seq r = u32 (seq0 + 1) /\
    send_result r = Some (code, data).
Proof. exact first_genuine_reply_completes. Qed.
Theorem C01_reply_verdict : forall (s : session) seq iv o lun code data pkt key,
  s_enc s = aes128_encrypt_block key -> s_dec s = aes128_decrypt_block key -> length key = 16%nat -> Forall (fun b => b < 256) key ->
  s_local_id s < 4294967296 -> length iv = 16%nat -> Forall (fun b => b < 256) iv -> Forall (fun b => b < 256) data ->
  op_fn o < 64 -> op_fn o mod 2 = 0 -> op_cmd o < 256 -> lun < 4 -> code < 256 -> op_body o < 256 ->
  (op_fn o <> 0x2c -> op_body o = 0) -> op_ent o < 16777216 -> (op_fn o <> 0x2e -> op_ent o = 0) ->
  reply_packet s seq iv o lun code data = Ok pkt -> N.of_nat (length pkt) <= 65507 ->
  session_verdict s o pkt = (if is_temporary code then VTemporary code else VFinal (reply_decoded o lun code data)) /\
  m_code (reply_decoded o lun code data) = code /\ m_payload (reply_decoded o lun code data) = data.
Proof. exact genuine_reply_is_final_udp. Qed.

(* suites with None for integrity or confidentiality are refused with an error, never half-supported *)
Theorem C01_none_is_refused : forall o s random sc1 sc2 sc3 sent e,
  new_session o s random sc1 sc2 sc3 = (sent, inl e) -> su_integ s <> 0 /\ su_conf s = 1.
Proof.
  intros o s random sc1 sc2 sc3 sent e H.
  destruct (new_session_ok_inv _ _ _ _ _ _ _ _ H) as [rsp [m2 [m4 [h [icvlen [b1 [p1 [b2 [p2 [b3 [p3 F]]]]]]]]]]].
  destruct F as (_ & _ & _ & _ & _ & _ & _ & _ & _ & _ & _ & _ & _ & (S1 & S2 & S3)). auto.
Qed.

(* the keys a returned session exposes are always derived as the specification says, whatever was received:
   SIK = HMAC_{KG or password}(Rm | Rc | role | ulen | uname), K_n = HMAC_SIK(n x 20) *)
Theorem C01_keys_derived : forall o s random sc1 sc2 sc3 sent e,
  new_session o s random sc1 sc2 sc3 = (sent, inl e) ->
  exists h icvlen rsp m2, auth_params (su_auth s) = Some (h, icvlen) /\
    es_sik e = hmac_alg h (if Nat.eqb (length (so_kg o)) 0 then so_password o else so_kg o)
                          (sik_input (rakp1_request o rsp random) m2) /\
    es_k1 e = hmac_alg h (es_sik e) (k_const 1) /\ es_k2 e = hmac_alg h (es_sik e) (k_const 2).
Proof.
  intros o s random sc1 sc2 sc3 sent e H.
  destruct (new_session_ok_inv _ _ _ _ _ _ _ _ H) as [rsp [m2 [m4 [h [icvlen [b1 [p1 [b2 [p2 [b3 [p3 F]]]]]]]]]]].
  destruct F as (_ & _ & _ & _ & _ & _ & _ & AP & _ & SK & _ & (K1 & K2) & _).
  exists h, icvlen, rsp, m2. auto.
Qed.

(* a shorter user key and its zero-padded 20-byte form are the same HMAC key (13.31: K_UID is 20 bytes) *)
Theorem C01_user_key_padding : forall h k n m, (length k + n <= 64)%nat -> hmac h (k ++ repeat 0 n) m = hmac h k m.
Proof. exact hmac_zero_pad. Qed.

Theorem C01_tables_tie :
  (forall n, k_const n = repeat (u8 n) (N.to_nat G.kConstantLength)) /\
  (G.auth_table = [([1], (1, [12], false)); ([2], (2, [], false)); ([3], (3, [16], false)); ([], (0, [], true))]
   /\ auth_params 1 = Some (1, 12%nat) /\ auth_params 3 = Some (3, 16%nat) /\ auth_params 2 = Some (2, 0%nat)) /\
  (G.integrity_table = [([0], (0, [], true)); ([1], (1, [1; 12], false)); ([2], (2, [1], false)); ([4], (3, [1; 16], false));
                        ([], (0, [], true))]
   /\ integrity_params 1 = Some (Some (1, 12%nat)) /\ integrity_params 2 = Some (Some (2, 16%nat))
   /\ integrity_params 4 = Some (Some (3, 16%nat))) /\
  G.confidentiality_table = [([0], (0, [], true)); ([1], (0, [16; 2], false)); ([], (0, [], true))].
Proof. exact (conj tie_k_constant (conj tie_auth_table (conj tie_integrity_table tie_confidentiality_table))). Qed.
