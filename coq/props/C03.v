(* C03 — Every packet sent in a session is authenticated, encrypted and well-formed.
   Library side: [session_command_packet s seq iv o lun body] = V2Session.buildAndSend, one attempt
   (RMCP | v2.0 wrapper with Encrypted+Authenticated flags, RemoteID, sequence number | AES-128-CBC(iv) | IPMI
   message | request body), [session_loop] = the retry loop around it (every attempt: next sequence number,
   next 16 bytes from the random source); both are run against the Go code on every history of the C03/C09/C10
   checks.  Judge: [Bmc.accept] of SpecBmc.v, everything a conforming BMC checks before executing an in-session
   request — session ID, both flags, 0xFF integrity pad to a 4-byte multiple, pad-length byte, next header 07h,
   AuthCode recomputed with ITS K1 over auth-type..next-header, AES-128-CBC decryption with the first 16 bytes of
   ITS K2, confidentiality trailer 01 02 .. n n (n <= 15), both checksums of the IPMI message — returning the IV,
   the sequence number and the request it would execute.
   No premise about the cipher: AES-128 invertibility is proved (AesInverse.v). *)
From BMC Require Import Base Prim Layers Layers2 Serialize SpecRequests Packet Conn Handshake SpecBmc RequestProofs Aes.
From BMC Require Import SentPacketProofs IvProofs.

(* whatever fits a UDP datagram: accepted by the BMC as exactly the caller's command, for every suite the
   console's [s_sign] is the negotiated algorithm keyed with K1, every sequence number, IV, command, LUN, body *)
Theorem C03_sent_packet_accepted : forall (act : Bmc.active) (s : session),
  (16 <= length (Bmc.a_k2 act))%nat -> Forall (fun b => b < 256) (Bmc.a_k2 act) ->
  s_remote_id s = Bmc.a_bmc_id act -> s_remote_id s < 4294967296 ->
  (forall m, Some (s_sign s m) = Bmc.authcode (Bmc.a_integ act) (Bmc.a_k1 act) m) ->
  s_enc s = aes128_encrypt_block (firstn 16 (Bmc.a_k2 act)) ->
  forall seq iv o lun body pkt,
  seq < 4294967296 -> length iv = 16%nat -> Forall (fun b => b < 256) iv -> Forall (fun b => b < 256) body ->
  op_fn o < 64 -> op_fn o mod 2 = 0 -> op_fn o <> 0x2e -> op_cmd o < 256 -> lun < 4 -> (op_fn o = 0x2c -> op_body o < 256) ->
  session_command_packet s seq iv o lun body = Ok pkt -> N.of_nat (length pkt) <= 65507 ->
  Bmc.accept act pkt = Some (iv, seq, expected_lanreq o lun body).
Proof. exact sent_packet_accepted_udp. Qed.

(* the same, clause by clause as the property states it: the bytes of the datagram *)
Theorem C03_spelled_out : forall act : Bmc.active,
  (16 <= length (Bmc.a_k2 act))%nat -> Forall (fun b => b < 256) (Bmc.a_k2 act) ->
  forall s : session, s_remote_id s = Bmc.a_bmc_id act ->
  (forall m, Some (s_sign s m) = Bmc.authcode (Bmc.a_integ act) (Bmc.a_k1 act) m) ->
  s_enc s = aes128_encrypt_block (firstn 16 (Bmc.a_k2 act)) ->
  forall sqn iv o lun body pkt,
  length iv = 16%nat -> Forall (fun b => b < 256) iv -> Forall (fun b => b < 256) body ->
  op_fn o < 64 -> op_fn o mod 2 = 0 -> op_fn o <> 0x2e -> op_cmd o < 256 -> lun < 4 -> (op_fn o = 0x2c -> op_body o < 256) ->
  request_message_length o body < 65504 ->
  session_command_packet s sqn iv o lun body = Ok pkt ->
  exists msg ct code,
    let p := (15 - length msg mod 16)%nat in
    let padded := msg ++ map (fun i => N.of_nat (i + 1)) (seq 0 p) ++ [N.of_nat p] in
    let cov := [6; 0xC0] ++ put_le32 (Bmc.a_bmc_id act) ++ put_le32 sqn ++ put_le16 (N.of_nat (16 + length ct))
               ++ (iv ++ ct) ++ [0xff; 0xff; 2; 7] in
    pkt = [6; 0; 0xff; 7] ++ cov ++ code /\
    N.of_nat (16 + length ct) < 65536 /\ (length cov mod 4)%nat = 0%nat /\
    Some code = Bmc.authcode (Bmc.a_integ act) (Bmc.a_k1 act) cov /\ length code = Bmc.authcode_len (Bmc.a_integ act) /\
    ct = cbc_encrypt (aes128_encrypt_block (firstn 16 (Bmc.a_k2 act))) iv padded /\
    cbc_decrypt (aes128_decrypt_block (firstn 16 (Bmc.a_k2 act))) iv ct = padded /\
    (length padded mod 16)%nat = 0%nat /\ length ct = length padded /\
    N.of_nat (length msg) = request_message_length o body /\
    SpecParse.lan_request msg = Some (expected_lanreq o lun body).
Proof. exact sent_packet_spelled_out. Qed.

(* pad arithmetic for every length residue mod 4 and mod 16 *)
Theorem C03_pad_residues :
  (forall n, integrity_padlen n = ((4 - (n + 14) mod 4) mod 4)%nat /\ (integrity_padlen n <= 3)%nat /\
             ((12 + n + integrity_padlen n + 2) mod 4)%nat = 0%nat) /\
  (forall n, let p := (15 - n mod 16)%nat in
             aes_trailer n = map (fun i => N.of_nat (i + 1)) (seq 0 p) ++ [N.of_nat p] /\ (p <= 15)%nat /\
             ((n + length (aes_trailer n)) mod 16)%nat = 0%nat).
Proof. exact sent_packet_pad_residues. Qed.

(* IVs: the datagram carries exactly the 16 bytes drawn for it ... *)
Theorem C03_iv_is_the_draw : forall s : session, (forall b, length (s_enc s b) = 16%nat) ->
  forall seq iv o lun body pkt, length iv = 16%nat ->
  op_fn o < 64 -> op_fn o mod 2 = 0 -> op_fn o <> 0x2e -> op_cmd o < 256 -> lun < 4 -> (op_fn o = 0x2c -> op_body o < 256) ->
  request_message_length o body < 65504 ->
  session_command_packet s seq iv o lun body = Ok pkt -> firstn 16 (skipn 16 pkt) = iv.
Proof. exact iv_is_the_callers. Qed.
(* ... and over a whole command with retries every attempt uses the next draw, each draw once: the IVs on the
   wire are the first draws in order, pairwise distinct whenever the random source's draws are.  (That
   crypto/rand does not repeat a 128-bit draw is not provable; the check looks for repeats across histories.) *)
Theorem C03_ivs_follow_the_draws : forall s : session, (forall b, length (s_enc s b) = 16%nat) ->
  forall o lun body,
  op_fn o < 64 -> op_fn o mod 2 = 0 -> op_fn o <> 0x2e -> op_cmd o < 256 -> lun < 4 -> (op_fn o = 0x2c -> op_body o < 256) ->
  request_message_length o body < 65504 ->
  forall script seq ivs sent codes,
  Forall (fun iv => length iv = 16%nat) ivs -> (length script <= length ivs)%nat ->
  exists new, lr_sent (session_loop s o lun body seq ivs script sent codes) = sent ++ new /\
              map iv_field new = firstn (length new) ivs.
Proof. exact session_loop_ivs. Qed.
Theorem C03_ivs_never_reused : forall s : session, (forall b, length (s_enc s b) = 16%nat) ->
  forall o lun body,
  op_fn o < 64 -> op_fn o mod 2 = 0 -> op_fn o <> 0x2e -> op_cmd o < 256 -> lun < 4 -> (op_fn o = 0x2c -> op_body o < 256) ->
  request_message_length o body < 65504 ->
  forall script seq ivs sent codes,
  Forall (fun iv => length iv = 16%nat) ivs -> (length script <= length ivs)%nat -> NoDup ivs ->
  exists new, lr_sent (session_loop s o lun body seq ivs script sent codes) = sent ++ new /\ NoDup (map iv_field new).
Proof. exact session_loop_ivs_distinct. Qed.

(* the one thing the wrapper's 16-bit length field cannot carry: a message of 65504 bytes or more wraps the field
   and is rejected by any BMC; such a datagram exceeds what UDP can carry, so the library never transmits one *)
Theorem C03_oversize_cannot_be_sent : forall (act : Bmc.active) (s : session) seq iv o lun body pkt,
  (forall b, length (s_enc s b) = 16%nat) -> length iv = 16%nat ->
  op_fn o < 64 -> op_fn o mod 2 = 0 -> op_fn o <> 0x2e -> op_cmd o < 256 -> lun < 4 -> (op_fn o = 0x2c -> op_body o < 256) ->
  65504 <= request_message_length o body ->
  session_command_packet s seq iv o lun body = Ok pkt -> Bmc.accept act pkt = None /\ 65507 < N.of_nat (length pkt).
Proof. exact oversize_request_rejected. Qed.
