From BMC Require Import Base.
Theorem C03_placeholder : True. Proof. exact I. Qed.
