#!/bin/sh
# extract the model and build the oracle binary (offline)
set -e
cd "$(dirname "$0")"
timeout 600 coqc -Q ../coq/theories BMC Extract.v > extract.log 2>&1 || { cat extract.log; exit 1; }
ocamlfind ocamlopt -O3 -w -a -package str -linkpkg model.mli model.ml conv.ml conn_glue.ml oracle.ml -o oracle 2>build.log || \
ocamlfind ocamlopt -w -a -package str -linkpkg model.mli model.ml conv.ml conn_glue.ml oracle.ml -o oracle 2>build.log || { cat build.log; exit 1; }
