(* oracle — runs the extracted Coq model, one command per input line, one
   result per output line.  Unknown commands abort (never a default). *)
open Model
open Conv
open Conn_glue

let pr = Printf.sprintf

let res_str (f : 'a -> string) (r : 'a res) : string =
  match r with Ok a -> "ok " ^ f a | Err -> "err" | Fault -> "fault"

let str_result r =
  res_str (fun (s, c) -> pr "%s %d" (hex_of_bytes s) (int_of_nat c)) r

let tok_str (t : tok) : string =
  match t with
  | TN x -> string_of_int (int_of_n x)
  | TZ z -> string_of_int (int_of_z z)
  | TB b -> if b then "t" else "f"
  | TY bs -> "x" ^ hex_of_bytes bs

let dec_result (r : tok list res option) : string =
  match r with
  | None -> "olderr"
  | Some (Ok ts) -> "ok " ^ String.concat " " (List.map tok_str ts)
  | Some Err -> "err"
  | Some Fault -> "fault"

let old_of (s : string) : n list option = if s = "_" then None else Some (bytes_of_hex s)

(* layer names may carry parameters: v2session:<integrity alg>:<K1 hex>, aes:<key hex> *)
let decode_layer (name : string) (old : n list option) (bs : n list) : string =
  let d dec zero show = dec_result (run_decode dec zero show old bs) in
  match String.split_on_char ':' name with
  | ["rmcp"] -> d decode_rmcp rmcp_zero show_rmcp
  | ["selector"] -> d decode_selector selector_zero show_selector
  | ["v1session"] -> d decode_v1session v1session_zero show_v1session
  | ["message"] -> d decode_message message_zero show_message
  | ["opensessionrsp"] -> d decode_opensessionrsp opensessionrsp_zero show_opensessionrsp
  | ["rakp1"] -> d decode_rakp1 rakp1_zero show_rakp1
  | ["rakp2"] -> d decode_rakp2 rakp2_zero show_rakp2
  | ["rakp4"] -> d decode_rakp4 rakp4_zero show_rakp4
  | ["deviceid"] -> d decode_deviceid deviceid_zero show_deviceid
  | ["chassis"] -> d decode_chassis chassis_zero show_chassis
  | ["authcaps"] -> d decode_authcaps authcaps_zero show_authcaps
  | ["ciphersuites"] -> d decode_ciphersuites ciphersuites_zero show_ciphersuites
  | ["sessioninfo"] -> d decode_sessioninfo sessioninfo_zero show_sessioninfo
  | ["setpriv"] -> d decode_setpriv setpriv_zero show_setpriv
  | ["guid"] -> d decode_guid guid_zero show_guid
  | ["reserve"] -> d decode_reserve reserve_zero show_reserve
  | ["getsdrrsp"] -> d decode_getsdrrsp getsdrrsp_zero show_getsdrrsp
  | ["sdrhdr"] -> d decode_sdrhdr sdrhdr_zero show_sdrhdr
  | ["sdrrepoinfo"] -> d decode_sdrrepoinfo sdrrepoinfo_zero show_sdrrepoinfo
  | ["sensorreading"] -> d decode_sensorreading sensorreading_zero show_sensorreading
  | ["fsr"] -> d decode_fsr fsr_zero show_fsr
  | ["dcmicaps"] -> d decode_dcmicaps dcmicaps_zero show_dcmicaps
  | ["dcmimand"] -> d decode_dcmimand dcmimand_zero show_dcmimand
  | ["dcmiopt"] -> d decode_dcmiopt dcmiopt_zero show_dcmiopt
  | ["dcmimgmt"] -> d decode_dcmimgmt dcmimgmt_zero show_dcmimgmt
  | ["dcmipower"] -> d decode_dcmipower dcmipower_zero show_dcmipower
  | ["powerreading"] -> d decode_powerreading powerreading_zero show_powerreading
  | ["dcmisensor"] -> d decode_dcmisensor dcmisensor_zero show_dcmisensor
  | ["v2session"; alg; key] ->
      (match integrity_sign (n_of_int (int_of_string alg)) (bytes_of_hex key) with
       | Some sign -> d (decode_v2session sign) v2session_zero show_v2session
       | None -> failwith "oracle: unsupported integrity algorithm")
  | ["aes"; key] -> d (decode_aescbc (aes_dec (bytes_of_hex key))) aescbc_zero show_aescbc
  | _ -> failwith ("oracle: unknown layer " ^ name)

let c07 (name : string) (shape : int) (bs : n list) : string =
  let sh = n_of_int shape in
  let c dec zero show enc =
    match c07_case dec zero show enc bs with
    | Some (e, ts) -> hex_of_bytes e ^ " ok " ^ String.concat " " (List.map tok_str ts)
    | None -> "n/a" in
  match name with
  | "rmcp" -> c decode_rmcp rmcp_zero show_rmcp SpecEnc.rmcp
  | "deviceid" -> c decode_deviceid deviceid_zero show_deviceid (SpecEnc.deviceid sh)
  | "chassis" -> c decode_chassis chassis_zero show_chassis (SpecEnc.chassis sh)
  | "authcaps" -> c decode_authcaps authcaps_zero show_authcaps SpecEnc.authcaps
  | "ciphersuites" -> c decode_ciphersuites ciphersuites_zero show_ciphersuites SpecEnc.ciphersuites
  | "sessioninfo" -> c decode_sessioninfo sessioninfo_zero show_sessioninfo (SpecEnc.sessioninfo sh)
  | "setpriv" -> c decode_setpriv setpriv_zero show_setpriv SpecEnc.setpriv
  | "guid" -> c decode_guid guid_zero show_guid SpecEnc.guid
  | "reserve" -> c decode_reserve reserve_zero show_reserve SpecEnc.reserve
  | "getsdrrsp" -> c decode_getsdrrsp getsdrrsp_zero show_getsdrrsp SpecEnc.getsdrrsp
  | "sdrhdr" -> c decode_sdrhdr sdrhdr_zero show_sdrhdr SpecEnc.sdrhdr
  | "sdrrepoinfo" -> c decode_sdrrepoinfo sdrrepoinfo_zero show_sdrrepoinfo SpecEnc.sdrrepoinfo
  | "sensorreading" -> c decode_sensorreading sensorreading_zero show_sensorreading (SpecEnc.sensorreading sh)
  | "fsr" -> c decode_fsr fsr_zero show_fsr (SpecEnc.fsr sh)
  | "opensessionrsp" -> c decode_opensessionrsp opensessionrsp_zero show_opensessionrsp (SpecEnc.opensessionrsp sh)
  | "rakp2" -> c decode_rakp2 rakp2_zero show_rakp2 (SpecEnc.rakp2 sh)
  | "rakp4" -> c decode_rakp4 rakp4_zero show_rakp4 (SpecEnc.rakp4 sh)
  | "dcmicaps" -> c decode_dcmicaps dcmicaps_zero show_dcmicaps SpecEnc.dcmicaps
  | "dcmimand" -> c decode_dcmimand dcmimand_zero show_dcmimand SpecEnc.dcmimand
  | "dcmiopt" -> c decode_dcmiopt dcmiopt_zero show_dcmiopt SpecEnc.dcmiopt
  | "dcmimgmt" -> c decode_dcmimgmt dcmimgmt_zero show_dcmimgmt SpecEnc.dcmimgmt
  | "dcmipower" -> c decode_dcmipower dcmipower_zero show_dcmipower SpecEnc.dcmipower
  | "powerreading" -> c decode_powerreading powerreading_zero show_powerreading SpecEnc.powerreading
  | "dcmisensor" -> c decode_dcmisensor dcmisensor_zero show_dcmisensor SpecEnc.dcmisensor
  | _ -> failwith ("oracle: c07: unknown layer " ^ name)

let show_pres (p : pres) : string =
  match p with
  | RsOk rs -> "ok " ^ String.concat " " (List.map (fun r -> Printf.sprintf "%d:%d:%d:%d:%d" (int_of_n r.cr_id) (int_of_n r.cr_enterprise)
                                                     (int_of_n r.cr_auth) (int_of_n r.cr_integ) (int_of_n r.cr_conf)) rs)
  | RsErr -> "err" | RsFault -> "fault" | RsOutOfFuel -> "outoffuel"

let show_fsr_nopayload (r : fsr) : tok list =
  let l = show_fsr r in
  (* drop the trailing payload token *)
  List.rev (List.tl (List.rev l))

(* big numbers as decimal strings *)
let rec pos_bits (p : positive) : string = match p with XH -> "1" | XO q -> pos_bits q ^ "0" | XI q -> pos_bits q ^ "1"
let pos_string p = "b" ^ pos_bits p
let z_string (z : z) = match z with Z0 -> "0" | Zpos p -> pos_string p | Zneg p -> "-" ^ pos_string p

let handle (w : string list) : string =
  match w with
  | ["slsend"; fn; body; ent; cmd; lun; req; script] ->
      show_loop (sessionless_send (op_of fn body ent cmd) (ni lun) (request_of req) (script_of script))
  | ["sssend"; integ; k1; aeskey; local; remote; seq0; ivs; fn; body; ent; cmd; lun; req; script] ->
      (match mk_session (ni integ) (bytes_of_hex k1) (bytes_of_hex aeskey) (nbig local) (nbig remote) with
       | Some s -> show_loop (session_send s (nbig seq0) (List.map bytes_of_hex (split_list ivs))
                                (op_of fn body ent cmd) (ni lun) (request_of req) (script_of script))
       | None -> "nosession")
  | ["ssclose"; integ; k1; aeskey; local; remote; seq0; ivs; script] ->
      (match mk_session (ni integ) (bytes_of_hex k1) (bytes_of_hex aeskey) (nbig local) (nbig remote) with
       | Some s -> show_loop (session_close s (nbig seq0) (List.map bytes_of_hex (split_list ivs)) (script_of script))
       | None -> "nosession")
  | ["hs"; user; pw; kg; priv; lookup; auth; integ; conf; random; sc1; sc2; sc3] ->
      let o = { so_user = bytes_of_hex user; so_password = bytes_of_hex pw; so_kg = bytes_of_hex kg;
                so_priv = ni priv; so_lookup = (lookup = "1") } in
      let su = { su_auth = ni auth; su_integ = ni integ; su_conf = ni conf } in
      let (sent, r) = new_session o su (bytes_of_hex random) (script_of sc1) (script_of sc2) (script_of sc3) in
      (match r with
       | Inl e -> Printf.sprintf "ok local=%d remote=%d sik=%s k1=%s k2=%s aes=%s sent=%s"
                    (int_of_n e.es_local_id) (int_of_n e.es_remote_id) (hex_of_bytes e.es_sik) (hex_of_bytes e.es_k1)
                    (hex_of_bytes e.es_k2) (hex_of_bytes e.es_aes_key) (hexlist sent)
       | Inr e -> Printf.sprintf "err %s sent=%s" (hs_err e) (hexlist sent))
  | ["determine"; desired; advertised] ->
      let su x = match String.split_on_char '/' x with
        | [a; i; c] -> { su_auth = ni a; su_integ = ni i; su_conf = ni c } | _ -> failwith "bad suite" in
      (match determine (List.map su (split_list desired)) (List.map su (split_list advertised)) with
       | Chosen (s, d) -> Printf.sprintf "%d/%d/%d discovery=%b" (int_of_n s.su_auth) (int_of_n s.su_integ) (int_of_n s.su_conf) d
       | NoSupportedSuite -> "nosupported")
  | ["accept"; integ; conf; k1; k2; console; bmcid; dg] ->
      (match Bmc.accept (mk_active (ni integ) (ni conf) (bytes_of_hex k1) (bytes_of_hex k2) (nbig console) (nbig bmcid)) (bytes_of_hex dg) with
       | Some ((iv, seq), r) -> Printf.sprintf "ok iv=%s seq=%d %s" (hex_of_bytes iv) (int_of_n seq)
                                  (String.concat " " (List.map tok_str (show_lanreq r)))
       | None -> "reject")
  | ["specsl"; dg] ->
      (match spec_sessionless (bytes_of_hex dg) with
       | Some ts -> "ok " ^ String.concat " " (List.map tok_str ts) | None -> "reject")
  | ["specsetup"; dg] ->
      (match spec_setup (bytes_of_hex dg) with
       | Some (((pt, id), seq), p) -> Printf.sprintf "ok %d %d %d %s" (int_of_n pt) (int_of_n id) (int_of_n seq) (hex_of_bytes p)
       | None -> "reject")
  | ["specbody"; kind; h] ->
      (match SpecParse.request_body (kind_of_name kind) (bytes_of_hex h) with
       | Some r -> "ok " ^ String.concat " " (List.map tok_str (show_request r)) | None -> "reject")
  | ["showreq"; req] ->
      let r = request_of req in
      Printf.sprintf "%s wf=%b" (String.concat " " (List.map tok_str (show_request r))) (SpecParse.wf_request r)
  | ["seropen"; tag; priv; id; a; i; c] ->
      let alg x = { ap_wildcard = false; ap_alg = ni x } in
      (match ser_opensessionreq { oq_tag = ni tag; oq_maxpriv = ni priv; oq_id = nbig id; oq_auth = alg a; oq_integ = alg i; oq_conf = alg c } [] with
       | Ok b -> "ok " ^ hex_of_bytes b | Err -> "err" | Fault -> "fault")
  | ["serrakp1"; tag; bmcid; rnd; lookup; priv; user] ->
      (match ser_rakp1 { r1_tag = ni tag; r1_bmc_id = nbig bmcid; r1_random = bytes_of_hex rnd; r1_lookup = (lookup = "1");
                         r1_maxpriv = ni priv; r1_username = bytes_of_hex user } [] with
       | Ok b -> "ok " ^ hex_of_bytes b | Err -> "err" | Fault -> "fault")
  | ["serrakp3"; tag; st; bmcid; code] ->
      (match ser_rakp3 { r3_tag = ni tag; r3_status = ni st; r3_bmc_id = nbig bmcid; r3_authcode = bytes_of_hex code } [] with
       | Ok b -> "ok " ^ hex_of_bytes b | Err -> "err" | Fault -> "fault")
  | ["specopen"; h] ->
      (match SpecParse.open_session_request (bytes_of_hex h) with
       | Some q -> Printf.sprintf "ok %d %d %d %d %d %d" (int_of_n q.oq_tag) (int_of_n q.oq_maxpriv) (int_of_n q.oq_id)
                     (int_of_n q.oq_auth.ap_alg) (int_of_n q.oq_integ.ap_alg) (int_of_n q.oq_conf.ap_alg)
       | None -> "reject")
  | ["specrakp1"; h] ->
      (match SpecParse.rakp_message_1 (bytes_of_hex h) with
       | Some m -> Printf.sprintf "ok %d %d %s %s %d %s" (int_of_n m.r1_tag) (int_of_n m.r1_bmc_id) (hex_of_bytes m.r1_random)
                     (if m.r1_lookup then "1" else "0") (int_of_n m.r1_maxpriv) (hex_of_bytes m.r1_username)
       | None -> "reject")
  | ["specrakp3"; h] ->
      (match SpecParse.rakp_message_3 (bytes_of_hex h) with
       | Some m -> Printf.sprintf "ok %d %d %d %s" (int_of_n m.r3_tag) (int_of_n m.r3_status) (int_of_n m.r3_bmc_id) (hex_of_bytes m.r3_authcode)
       | None -> "reject")
  | ["serreq"; req] ->
      (match ser_request (request_of req) [] with Ok b -> "ok " ^ hex_of_bytes b | Err -> "err" | Fault -> "fault")
  | ["bmc_rakp"; auth; integ; conf; pw; kg; guid; console; bmcid; rm; rc; role; name] ->
      (* the specification's BMC: keys and codes from its own view of the exchange *)
      let cfg = { Bmc.users = [((bytes_of_hex name, bytes_of_hex pw), n_of_int 15)]; Bmc.kg = bytes_of_hex kg; Bmc.guid = bytes_of_hex guid } in
      let p = { Bmc.p_console_id = nbig console; Bmc.p_bmc_id = nbig bmcid; Bmc.p_auth = ni auth; Bmc.p_integ = ni integ; Bmc.p_conf = ni conf } in
      let r = ni role in
      let nm = bytes_of_hex name in
      let m1 = [n_of_int 0; n_of_int 0; n_of_int 0; n_of_int 0] @ put_le32 (nbig bmcid) @ bytes_of_hex rm
               @ [r; n_of_int 0; n_of_int 0; n_of_int (List.length nm)] @ nm in
      (match Bmc.rakp1 cfg p m1 (bytes_of_hex rc) with
       | Some (r2, Some h) ->
           let kuid = h.Bmc.h_kuid in
           let user = [r; n_of_int (List.length nm)] @ nm in
           let code3 = hmac_alg (ni auth) kuid (bytes_of_hex rc @ put_le32 (nbig console) @ user) in
           let m3 = [n_of_int 0; n_of_int 0; n_of_int 0; n_of_int 0] @ put_le32 (nbig bmcid) @ code3 in
           (match Bmc.rakp3 cfg h m3 with
            | Some (r4, Some a) -> Printf.sprintf "ok rakp2=%s rakp4=%s sik=%s k1=%s k2=%s" (hex_of_bytes r2) (hex_of_bytes r4)
                                     (hex_of_bytes a.Bmc.a_sik) (hex_of_bytes a.Bmc.a_k1) (hex_of_bytes a.Bmc.a_k2)
            | _ -> "rakp3fail")
       | Some (r2, None) -> "rakp1err " ^ hex_of_bytes r2
       | None -> "rakp1reject")
  | ["csparse"; h] ->
      let d = bytes_of_hex h in show_pres (parse_records (nat_of_int (List.length d)) d [])
  | ["csretrieve"; chunks] ->
      let cs = List.map (fun x -> if x = "x" then None else Some (bytes_of_hex x)) (split_list chunks) in
      (match retrieve_chunks (serve_chunks cs) N0 (nat_of_int 65) [] O with
       | None -> "cmderr"
       | Some (data, n) -> Printf.sprintf "%d %s" (int_of_nat n) (show_pres (parse_records (nat_of_int (List.length data)) data [])))
  | ["dcmiinfo"; page; tbl; fail] ->
      (* tbl: entity=id,id,...;entity=... *)
      let ents = List.filter (fun x -> x <> "") (String.split_on_char ';' tbl) in
      let t = List.map (fun e -> match String.split_on_char '=' e with
          | [k; v] -> (ni k, List.map ni (List.filter (fun x -> x <> "") (String.split_on_char ',' v)))
          | _ -> failwith "bad dcmi table") ents in
      let fl = List.map ni (split_list fail) in
      (match get_sensor_info (serve_dcmi t fl (nat_of_int (int_of_string page))) with
       | None -> "err"
       | Some m -> "ok " ^ String.concat " | " (List.map (fun l -> String.concat "," (List.map (fun x -> string_of_int (int_of_n x)) l)) m))
  | ["dcmiinst"; page; ids] ->
      let l = List.map ni (split_list ids) in
      (match get_entity_instances (serve_dcmi [(n_of_int 1, l)] [] (nat_of_int (int_of_string page)) (n_of_int 1)) with
       | None -> "err"
       | Some (r, n) -> Printf.sprintf "%d %s" (int_of_nat n) (nlist r))
  | ["sdrwalk"; recs] ->
      let rs = List.map (fun e -> match String.split_on_char '=' e with
          | [k; v] -> (ni k, bytes_of_hex v) | _ -> failwith "bad sdr list") (split_list recs) in
      (match walk (serve_sdr rs) (n_of_int 1) N0 (nat_of_int (List.length rs + 1)) [] with
       | WOk m -> "ok " ^ String.concat " " (List.map (fun (id, r) ->
            Printf.sprintf "%d=%s" (int_of_n id) (String.concat "," ("ok" :: List.map tok_str (List.filter (fun t -> true) (show_fsr_nopayload r))))) 
            (List.sort (fun (a, _) (b, _) -> compare (int_of_n a) (int_of_n b)) m))
       | WErr -> "err" | WOutOfFuel -> "outoffuel")
  | ["sensor"; fsrh; rsph] ->
      (match decode_fsr fsr_zero (bytes_of_hex fsrh), decode_sensorreading sensorreading_zero (bytes_of_hex rsph) with
       | Ok r, Ok rsp ->
           (match new_sensor_reader r with
            | RNone -> "noreader"
            | rd ->
              (match read_sensor r rd rsp with
               | Some (RdValue (q, lin)) -> Printf.sprintf "value %s/%s lin=%d" (z_string q.qnum) (pos_string q.qden) (int_of_n lin)
               | Some RdUnavailable -> "unavailable"
               | Some RdScanningDisabled -> "scanningdisabled"
               | None -> "noreader"))
       | _, _ -> "decodeerr")
  | ["rt"; layer; h] ->
      let show r = match r with
        | None -> "err"
        | Some (Ok ((out, first), second)) ->
            Printf.sprintf "ok %s ok %s || %s" (hex_of_bytes out) (String.concat " " (List.map tok_str first))
              (match second with Some ts -> "ok " ^ String.concat " " (List.map tok_str ts) | None -> "err")
        | Some Err -> "sererr" | Some Fault -> "fault" in
      (match String.split_on_char ':' layer with
       | ["message"] -> show (rt_message (bytes_of_hex h))
       | ["v1session"] -> show (rt_v1session (bytes_of_hex h))
       | ["rakp1"] -> show (rt_rakp1 (bytes_of_hex h))
       | ["v2session"; alg; key] ->
           (match integrity_sign (ni alg) (bytes_of_hex key) with
            | Some sg -> show (rt_v2session sg (bytes_of_hex h)) | None -> failwith "alg")
       | _ -> failwith "oracle: rt: unknown layer")
  | ["rtaes"; key; iv; h] ->
      (match rt_aes (bytes_of_hex key) (bytes_of_hex iv) (bytes_of_hex h) with
       | None -> "err" | Some (Ok (out, p)) -> Printf.sprintf "ok %s %s" (hex_of_bytes out) (hex_of_bytes p)
       | Some Err -> "sererr" | Some Fault -> "fault")
  | ["c07"; layer; shape; h] -> c07 layer (int_of_string shape) (bytes_of_hex h)
  | ["cbcenc"; key; iv; pt] ->
      hex_of_bytes (cbc_encrypt (aes_enc (bytes_of_hex key)) (bytes_of_hex iv) (bytes_of_hex pt))
  | ["cbcdec"; key; iv; ct] ->
      hex_of_bytes (cbc_decrypt (aes_dec (bytes_of_hex key)) (bytes_of_hex iv) (bytes_of_hex ct))
  | ["hmac"; alg; key; msg] ->
      hex_of_bytes (hmac_alg (n_of_int (int_of_string alg)) (bytes_of_hex key) (bytes_of_hex msg))
  | ["dec"; layer; old; h] -> decode_layer layer (old_of old) (bytes_of_hex h)
  | ["bcd"; b] -> string_of_int (int_of_n (Impl.bcd_decode (n_of_int (int_of_string b))))
  | ["ones"; b] -> string_of_int (int_of_z (Impl.ones (n_of_int (int_of_string b))))
  | ["twos"; hi; lo; bits] ->
      string_of_int (int_of_z (Impl.twos (n_of_int (int_of_string hi)) (n_of_int (int_of_string lo))
                                 (n_of_int (int_of_string bits))))
  | ["parse"; fmt; raw] ->
      (match Impl.analog_parser (n_of_int (int_of_string fmt)) with
       | Some p -> string_of_int (int_of_z (p (n_of_int (int_of_string raw))))
       | None -> "none")
  | ["checksum"; h] -> string_of_int (int_of_n (Impl.checksum (bytes_of_hex h)))
  | ["str"; enc; c; h] ->
      (match Impl.string_decoder (n_of_int (int_of_string enc)) with
       | Some d -> str_result (d (bytes_of_hex h) (nat_of_int (int_of_string c)))
       | None -> "none")
  | ["rdur"; b] -> string_of_int (int_of_n (Impl.rolling_duration (n_of_int (int_of_string b))))
  | ["rbyte"; d] -> string_of_int (int_of_n (Impl.rolling_byte (n_of_string d)))
  | ["ent"; i] ->
      let x = n_of_int (int_of_string i) in
      pr "%b %b" (Impl.is_system_relative x) (Impl.is_device_relative x)
  (* spec side: reference values, independent of the Impl definitions *)
  | ["spec_bcd"; b] -> string_of_int (int_of_n (Spec.bcd (n_of_int (int_of_string b))))
  | ["spec_ones"; b] -> string_of_int (int_of_z (Spec.ones (n_of_int (int_of_string b))))
  | ["spec_twos"; w; v] ->
      string_of_int (int_of_z (Spec.twos (n_of_int (int_of_string w)) (n_of_int (int_of_string v))))
  | ["spec_interpret"; fmt; raw] ->
      (match Spec.interpret (n_of_int (int_of_string fmt)) (n_of_int (int_of_string raw)) with
       | Some z -> string_of_int (int_of_z z) | None -> "none")
  | ["spec_pack_nibbles"; h] -> hex_of_bytes (Spec.pack_nibbles (bytes_of_hex h))
  | ["spec_pack6"; h] -> hex_of_bytes (Spec.pack6 (bytes_of_hex h))
  | ["spec_bcd_rune"; n] -> string_of_int (int_of_n (Spec.bcd_plus_rune (n_of_int (int_of_string n))))
  | ["spec_rdur"; b] -> string_of_int (int_of_n (Spec.rolling_duration (n_of_int (int_of_string b))))
  | ["spec_rbyte"; d] -> string_of_int (int_of_n (Spec.rolling_byte (n_of_string d)))
  | _ -> failwith ("oracle: unknown command: " ^ String.concat " " w)

let () =
  let buf = Buffer.create (1 lsl 20) in
  (try
     while true do
       let line = input_line stdin in
       let w = List.filter (fun s -> s <> "") (String.split_on_char ' ' line) in
       if w <> [] then begin
         Buffer.add_string buf (handle w);
         Buffer.add_char buf '\n';
         if Buffer.length buf > (1 lsl 20) then begin
           print_string (Buffer.contents buf); Buffer.clear buf
         end
       end
     done
   with End_of_file -> ());
  print_string (Buffer.contents buf)
