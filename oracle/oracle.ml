(* oracle — runs the extracted Coq model, one command per input line, one
   result per output line.  Unknown commands abort (never a default). *)
open Model
open Conv

let pr = Printf.sprintf

let res_str (f : 'a -> string) (r : 'a res) : string =
  match r with Ok a -> "ok " ^ f a | Err -> "err" | Fault -> "fault"

let str_result r =
  res_str (fun (s, c) -> pr "%s %d" (hex_of_bytes s) (int_of_nat c)) r

let handle (w : string list) : string =
  match w with
  | ["bcd"; b] -> string_of_int (int_of_n (Impl.bcd_decode (n_of_int (int_of_string b))))
  | ["ones"; b] -> string_of_int (int_of_z (Impl.ones (n_of_int (int_of_string b))))
  | ["twos"; hi; lo; bits] ->
      string_of_int (int_of_z (Impl.twos (n_of_int (int_of_string hi)) (n_of_int (int_of_string lo))
                                 (n_of_int (int_of_string bits))))
  | ["parse"; fmt; raw] ->
      (match Impl.analog_parser (n_of_int (int_of_string fmt)) with
       | Some p -> string_of_int (int_of_z (p (n_of_int (int_of_string raw))))
       | None -> "none")
  | ["checksum"; h] -> string_of_int (int_of_n (Impl.checksum (bytes_of_hex h)))
  | ["str"; enc; c; h] ->
      (match Impl.string_decoder (n_of_int (int_of_string enc)) with
       | Some d -> str_result (d (bytes_of_hex h) (nat_of_int (int_of_string c)))
       | None -> "none")
  | ["rdur"; b] -> string_of_int (int_of_n (Impl.rolling_duration (n_of_int (int_of_string b))))
  | ["rbyte"; d] -> string_of_int (int_of_n (Impl.rolling_byte (n_of_string d)))
  | ["ent"; i] ->
      let x = n_of_int (int_of_string i) in
      pr "%b %b" (Impl.is_system_relative x) (Impl.is_device_relative x)
  (* spec side: reference values, independent of the Impl definitions *)
  | ["spec_bcd"; b] -> string_of_int (int_of_n (Spec.bcd (n_of_int (int_of_string b))))
  | ["spec_ones"; b] -> string_of_int (int_of_z (Spec.ones (n_of_int (int_of_string b))))
  | ["spec_twos"; w; v] ->
      string_of_int (int_of_z (Spec.twos (n_of_int (int_of_string w)) (n_of_int (int_of_string v))))
  | ["spec_interpret"; fmt; raw] ->
      (match Spec.interpret (n_of_int (int_of_string fmt)) (n_of_int (int_of_string raw)) with
       | Some z -> string_of_int (int_of_z z) | None -> "none")
  | ["spec_pack_nibbles"; h] -> hex_of_bytes (Spec.pack_nibbles (bytes_of_hex h))
  | ["spec_pack6"; h] -> hex_of_bytes (Spec.pack6 (bytes_of_hex h))
  | ["spec_bcd_rune"; n] -> string_of_int (int_of_n (Spec.bcd_plus_rune (n_of_int (int_of_string n))))
  | ["spec_rdur"; b] -> string_of_int (int_of_n (Spec.rolling_duration (n_of_int (int_of_string b))))
  | ["spec_rbyte"; d] -> string_of_int (int_of_n (Spec.rolling_byte (n_of_string d)))
  | _ -> failwith ("oracle: unknown command: " ^ String.concat " " w)

let () =
  let buf = Buffer.create (1 lsl 20) in
  (try
     while true do
       let line = input_line stdin in
       let w = List.filter (fun s -> s <> "") (String.split_on_char ' ' line) in
       if w <> [] then begin
         Buffer.add_string buf (handle w);
         Buffer.add_char buf '\n';
         if Buffer.length buf > (1 lsl 20) then begin
           print_string (Buffer.contents buf); Buffer.clear buf
         end
       end
     done
   with End_of_file -> ());
  print_string (Buffer.contents buf)
