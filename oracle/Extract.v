(* Extraction of the executable model to OCaml for the correspondence check.
   ExtrOcamlBasic only: bool, option, list, prod, unit, sumbool, sumor map to
   OCaml's; N, Z, positive, nat stay the extracted inductives. *)
Require Import ExtrOcamlBasic.
From BMC Require Import Base Prim Layers Layers2 SpecLayers Hmac Aes Serialize SpecRequests Packet Conn Handshake SpecBmc Proc Dispatch.
Extraction Language OCaml.
Extraction "model.ml"
  Impl.bcd_decode Impl.ones Impl.twos Impl.analog_parser Impl.checksum
  Impl.decode_bcd_plus Impl.decode_packed6 Impl.decode_latin1 Impl.string_decoder
  Impl.rolling_duration Impl.rolling_byte Impl.is_system_relative Impl.is_device_relative
  Spec.bcd Spec.ones Spec.twos Spec.interpret Spec.pack_nibbles Spec.pack6
  Spec.bcd_plus_rune Spec.rolling_duration Spec.rolling_byte
  c07_case SpecEnc.rmcp SpecEnc.deviceid SpecEnc.chassis SpecEnc.authcaps SpecEnc.ciphersuites SpecEnc.sessioninfo
  SpecEnc.setpriv SpecEnc.guid SpecEnc.reserve SpecEnc.getsdrrsp SpecEnc.sdrhdr SpecEnc.sdrrepoinfo SpecEnc.sensorreading
  SpecEnc.fsr SpecEnc.opensessionrsp SpecEnc.rakp2 SpecEnc.rakp4 SpecEnc.dcmicaps SpecEnc.dcmimand SpecEnc.dcmiopt
  SpecEnc.dcmimgmt SpecEnc.dcmipower SpecEnc.powerreading SpecEnc.dcmisensor
  mk_session mk_active outcome_code spec_sessionless spec_setup show_request show_lanreq
  sessionless_send session_send session_close new_session determine SpecParse.request_body SpecParse.wf_request SpecParse.kind_of
  SpecParse.open_session_request SpecParse.rakp_message_1 SpecParse.rakp_message_3 SpecParse.command_code SpecParse.command_kind
  Bmc.accept Bmc.open_session Bmc.rakp1 Bmc.rakp3 ser_request ser_opensessionreq ser_rakp1 ser_rakp3 ser_message ser_v2session ser_v1session ser_aescbc ser_rmcp
  sessionless_command_packet payload_packet session_command_packet receive
  parse_records retrieve_cipher_suites retrieve_chunks get_entity_instances get_sensor_info walk new_sensor_reader read_sensor
  serve_chunks serve_dcmi serve_sdr convert_reading
  rt_message rt_v1session rt_v2session rt_rakp1 rt_aes
  put_le32 cbc_encrypt cbc_decrypt run_decode aes_dec aes_enc integrity_sign hmac_alg auth_params
  decode_rmcp rmcp_zero show_rmcp decode_selector selector_zero show_selector
  decode_v1session v1session_zero show_v1session decode_message message_zero show_message
  decode_opensessionrsp opensessionrsp_zero show_opensessionrsp
  decode_rakp1 rakp1_zero show_rakp1 decode_rakp2 rakp2_zero show_rakp2 decode_rakp4 rakp4_zero show_rakp4
  decode_deviceid deviceid_zero show_deviceid decode_chassis chassis_zero show_chassis
  decode_authcaps authcaps_zero show_authcaps decode_ciphersuites ciphersuites_zero show_ciphersuites
  decode_sessioninfo sessioninfo_zero show_sessioninfo decode_setpriv setpriv_zero show_setpriv
  decode_guid guid_zero show_guid decode_reserve reserve_zero show_reserve
  decode_getsdrrsp getsdrrsp_zero show_getsdrrsp decode_sdrhdr sdrhdr_zero show_sdrhdr
  decode_sdrrepoinfo sdrrepoinfo_zero show_sdrrepoinfo decode_sensorreading sensorreading_zero show_sensorreading
  decode_fsr fsr_zero show_fsr
  decode_v2session v2session_zero show_v2session decode_aescbc aescbc_zero show_aescbc
  decode_dcmicaps dcmicaps_zero show_dcmicaps decode_dcmimand dcmimand_zero show_dcmimand
  decode_dcmiopt dcmiopt_zero show_dcmiopt decode_dcmimgmt dcmimgmt_zero show_dcmimgmt
  decode_dcmipower dcmipower_zero show_dcmipower decode_powerreading powerreading_zero show_powerreading
  decode_dcmisensor dcmisensor_zero show_dcmisensor.
