(* Extraction of the executable model to OCaml for the correspondence check.
   ExtrOcamlBasic only: bool, option, list, prod, unit, sumbool, sumor map to
   OCaml's; N, Z, positive, nat stay the extracted inductives. *)
Require Import ExtrOcamlBasic.
From BMC Require Import Base Prim.
Extraction Language OCaml.
Extraction "model.ml"
  Impl.bcd_decode Impl.ones Impl.twos Impl.analog_parser Impl.checksum
  Impl.decode_bcd_plus Impl.decode_packed6 Impl.decode_latin1 Impl.string_decoder
  Impl.rolling_duration Impl.rolling_byte Impl.is_system_relative Impl.is_device_relative
  Spec.bcd Spec.ones Spec.twos Spec.interpret Spec.pack_nibbles Spec.pack6
  Spec.bcd_plus_rune Spec.rolling_duration Spec.rolling_byte.
