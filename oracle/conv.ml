(* conversions between OCaml values and the extracted inductives *)
open Model

let rec pos_of_int (i : int) : positive =
  if i = 1 then XH
  else if i land 1 = 0 then XO (pos_of_int (i lsr 1))
  else XI (pos_of_int (i lsr 1))
let n_of_int (i : int) : n = if i = 0 then N0 else Npos (pos_of_int i)
let rec int_of_pos (p : positive) : int =
  match p with XH -> 1 | XO q -> 2 * int_of_pos q | XI q -> 2 * int_of_pos q + 1
let int_of_n (x : n) : int = match x with N0 -> 0 | Npos p -> int_of_pos p
let z_of_int (i : int) : z =
  if i = 0 then Z0 else if i > 0 then Zpos (pos_of_int i) else Zneg (pos_of_int (-i))
let int_of_z (x : z) : int =
  match x with Z0 -> 0 | Zpos p -> int_of_pos p | Zneg p -> - (int_of_pos p)
let rec nat_of_int (i : int) : nat = if i <= 0 then O else S (nat_of_int (i - 1))
let rec int_of_nat (x : nat) : int = match x with O -> 0 | S k -> 1 + int_of_nat k

(* 64-bit unsigned decimal strings <-> N (values may exceed OCaml's int) *)
let n_of_string (s : string) : n =
  (* decimal, arbitrary size up to 2^64: use Int64 unsigned ops *)
  let v = Int64.of_string ("0u" ^ s) in
  let rec go (v : int64) : positive =
    if Int64.equal v 1L then XH
    else
      let half = Int64.shift_right_logical v 1 in
      if Int64.equal (Int64.logand v 1L) 0L then XO (go half) else XI (go half)
  in
  if Int64.equal v 0L then N0 else Npos (go v)

let hex_digit c =
  match c with
  | '0'..'9' -> Char.code c - 48
  | 'a'..'f' -> Char.code c - 87
  | 'A'..'F' -> Char.code c - 55
  | _ -> failwith "bad hex"
let bytes_of_hex (s : string) : n list =
  if s = "-" then [] else begin
    let len = String.length s / 2 in
    let rec go i acc =
      if i < 0 then acc
      else go (i - 1) (n_of_int (hex_digit s.[2*i] * 16 + hex_digit s.[2*i+1]) :: acc)
    in
    go (len - 1) []
  end
let hex_of_bytes (bs : n list) : string =
  if bs = [] then "-" else
  String.concat "" (List.map (fun b -> Printf.sprintf "%02x" (int_of_n b)) bs)
