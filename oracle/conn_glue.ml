(* glue for the connection-level oracle commands *)
open Model
open Conv

let ni s = n_of_int (int_of_string s)
let nbig s = n_of_string s
let split_list (s : string) : string list = if s = "." then [] else String.split_on_char ',' s
(* script: comma separated datagrams, "-" = lost, "." = empty script *)
let script_of (s : string) : n list option list =
  List.map (fun x -> if x = "-" then None else if x = "e" then Some [] else Some (bytes_of_hex x)) (split_list s)
let hexlist (l : n list list) : string = if l = [] then "." else String.concat "," (List.map hex_of_bytes l)
let nlist (l : n list) : string = if l = [] then "." else String.concat "," (List.map (fun x -> string_of_int (int_of_n x)) l)

(* request spec: "none", "authcaps:1,14,4", ..., "raw:<hex>" *)
let request_of (s : string) : request =
  match String.split_on_char ':' s with
  | ["none"] -> RqNone
  | ["raw"; h] -> RqRaw (bytes_of_hex h)
  | [name; ps] ->
      let p = Array.of_list (List.map nbig (String.split_on_char ',' ps)) in
      (match name with
       | "authcaps" -> RqAuthCaps ((int_of_n p.(0)) <> 0, p.(1), p.(2))
       | "ciphersuites" -> RqCipherSuites (p.(0), p.(1), p.(2))
       | "sessioninfo" -> RqSessionInfo (p.(0), p.(1), p.(2))
       | "setpriv" -> RqSetPriv p.(0)
       | "closesession" -> RqCloseSession (p.(0), p.(1))
       | "chassiscontrol" -> RqChassisControl p.(0)
       | "getsdr" -> RqGetSDR (p.(0), p.(1), p.(2), p.(3))
       | "sensorreading" -> RqSensorReading p.(0)
       | "dcmicaps" -> RqDCMICaps p.(0)
       | "powerreading" -> RqPowerReading (p.(0), p.(1))
       | "dcmisensorinfo" -> RqDCMISensorInfo (p.(0), p.(1), p.(2), p.(3))
       | _ -> failwith ("oracle: unknown request " ^ name))
  | _ -> failwith ("oracle: bad request spec " ^ s)

let kind_of_name (s : string) : SpecParse.kind =
  match s with
  | "none" -> SpecParse.KNone | "authcaps" -> SpecParse.KAuthCaps | "ciphersuites" -> SpecParse.KCipherSuites
  | "sessioninfo" -> SpecParse.KSessionInfo | "setpriv" -> SpecParse.KSetPriv | "closesession" -> SpecParse.KCloseSession
  | "chassiscontrol" -> SpecParse.KChassisControl | "getsdr" -> SpecParse.KGetSDR | "sensorreading" -> SpecParse.KSensorReading
  | "dcmicaps" -> SpecParse.KDCMICaps | "powerreading" -> SpecParse.KPowerReading | "dcmisensorinfo" -> SpecParse.KDCMISensorInfo
  | "raw" -> SpecParse.KRaw
  | _ -> failwith ("oracle: unknown kind " ^ s)

let op_of fn body ent cmd : operation = { op_fn = ni fn; op_body = ni body; op_ent = nbig ent; op_cmd = ni cmd }

let show_loop (lr : loop_result) : string =
  let base = Printf.sprintf "%d seq=%d codes=%s sent=%s" (int_of_n (outcome_code lr.lr_outcome))
      (int_of_n lr.lr_seq) (nlist lr.lr_codes) (hexlist lr.lr_sent) in
  match lr.lr_outcome with
  | OFinal m -> Printf.sprintf "%s code=%d payload=%s" base (int_of_n m.m_code) (hex_of_bytes m.m_payload)
  | _ -> base

let hs_err (e : hs_error) : string =
  match e with
  | EPayload k -> Printf.sprintf "payload%d" (int_of_nat k) | ETag k -> Printf.sprintf "tag%d" (int_of_nat k)
  | EStatus k -> Printf.sprintf "status%d" (int_of_nat k) | EDecode k -> Printf.sprintf "decode%d" (int_of_nat k)
  | EAlgorithms -> "algorithms" | EUnknownAuth -> "unknownauth" | EIncorrectPassword -> "incorrectpassword"
  | EICV -> "icv" | EIntegrity -> "integrity" | EConfidentiality -> "confidentiality" | ESerialize -> "serialize"
  | EFault -> "fault"
