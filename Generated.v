(* Generated.v - GENERATED from /repo by /verif/gen on every run; do not edit. *)
From Coq Require Import List NArith String.
Import ListNotations.
Open Scope string_scope.

(* constants *)
Definition NetworkFunctionChassisReq : N := 0%N.
Definition NetworkFunctionSensorReq : N := 4%N.
Definition NetworkFunctionAppReq : N := 6%N.
Definition NetworkFunctionStorageReq : N := 10%N.
Definition NetworkFunctionGroupReq : N := 44%N.
Definition NetworkFunctionGroupRsp : N := 45%N.
Definition NetworkFunctionOEMReq : N := 46%N.
Definition NetworkFunctionOEMRsp : N := 47%N.
Definition PayloadTypeIPMI : N := 0%N.
Definition PayloadTypeOEM : N := 2%N.
Definition PayloadTypeOpenSessionReq : N := 16%N.
Definition PayloadTypeOpenSessionRsp : N := 17%N.
Definition PayloadTypeRAKPMessage1 : N := 18%N.
Definition PayloadTypeRAKPMessage2 : N := 19%N.
Definition PayloadTypeRAKPMessage3 : N := 20%N.
Definition PayloadTypeRAKPMessage4 : N := 21%N.
Definition CompletionCodeNormal : N := 0%N.
Definition CompletionCodeNodeBusy : N := 192%N.
Definition CompletionCodeTimeout : N := 195%N.
Definition StatusCodeOK : N := 0%N.
Definition AuthenticationAlgorithmNone : N := 0%N.
Definition AuthenticationAlgorithmHMACSHA1 : N := 1%N.
Definition AuthenticationAlgorithmHMACMD5 : N := 2%N.
Definition AuthenticationAlgorithmHMACSHA256 : N := 3%N.
Definition IntegrityAlgorithmNone : N := 0%N.
Definition IntegrityAlgorithmHMACSHA196 : N := 1%N.
Definition IntegrityAlgorithmHMACMD5128 : N := 2%N.
Definition IntegrityAlgorithmHMACSHA256128 : N := 4%N.
Definition ConfidentialityAlgorithmNone : N := 0%N.
Definition ConfidentialityAlgorithmAESCBC128 : N := 1%N.
Definition LinearisationLinear : N := 0%N.
Definition LinearisationNonLinear : N := 12%N.
Definition LinearisationCubeRt : N := 11%N.
Definition AnalogDataFormatUnsigned : N := 0%N.
Definition AnalogDataFormatOnesComplement : N := 1%N.
Definition AnalogDataFormatTwosComplement : N := 2%N.
Definition AnalogDataFormatNotAnalog : N := 3%N.
Definition RecordTypeFullSensor : N := 1%N.
Definition RecordIDFirst : N := 0%N.
Definition RecordIDLast : N := 65535%N.
Definition BodyCodeDCMI : N := 220%N.
Definition SessionIndexHandle : N := 254%N.
Definition SessionIndexID : N := 255%N.
Definition ChannelPresentInterface : N := 14%N.
Definition PrivilegeLevelCallback : N := 1%N.
Definition EntityIDAirInlet : N := 55%N.
Definition EntityIDProcessor : N := 3%N.
Definition EntityIDSystemBoard : N := 7%N.
Definition EntityIDDCMIAirInlet : N := 64%N.
Definition EntityIDDCMIProcessor : N := 65%N.
Definition EntityIDDCMISystemBoard : N := 66%N.
Definition SensorTypeTemperature : N := 1%N.
Definition SlaveAddressBMC : N := 16%N.
Definition SoftwareIDRemoteConsole1 : N := 64%N.
Definition AuthenticationTypeRMCPPlus : N := 6%N.
Definition AuthenticationTypeNone : N := 0%N.
Definition sdrHeaderLength : N := 5%N.
Definition sdrMaxLength : N := 64%N.
Definition SystemPowerStatisticsModeEnhanced : N := 2%N.

(* Operation table: pkg/ipmi/operation.go, pkg/dcmi/operations.go, and which operation each command uses *)
Definition operations : list (string * (N * N * N * N)) := [
  ("OperationChassisControlReq", (0, 0, 0, 2));
  ("OperationCloseSessionReq", (6, 0, 0, 60));
  ("OperationGetChannelAuthenticationCapabilitiesReq", (6, 0, 0, 56));
  ("OperationGetChannelAuthenticationCapabilitiesRsp", (7, 0, 0, 56));
  ("OperationGetChannelCipherSuitesReq", (6, 0, 0, 84));
  ("OperationGetChannelCipherSuitesRsp", (7, 0, 0, 84));
  ("OperationGetChassisStatusReq", (0, 0, 0, 1));
  ("OperationGetChassisStatusRsp", (1, 0, 0, 1));
  ("OperationGetDeviceIDReq", (6, 0, 0, 1));
  ("OperationGetDeviceIDRsp", (7, 0, 0, 1));
  ("OperationGetSDRRepositoryInfoReq", (10, 0, 0, 32));
  ("OperationGetSDRRepositoryInfoRsp", (11, 0, 0, 32));
  ("OperationGetSDRReq", (10, 0, 0, 35));
  ("OperationGetSDRRsp", (11, 0, 0, 35));
  ("OperationGetSensorReadingReq", (4, 0, 0, 45));
  ("OperationGetSensorReadingRsp", (5, 0, 0, 45));
  ("OperationGetSessionInfoReq", (6, 0, 0, 61));
  ("OperationGetSessionInfoRsp", (7, 0, 0, 61));
  ("OperationGetSystemGUIDReq", (6, 0, 0, 55));
  ("OperationGetSystemGUIDRsp", (7, 0, 0, 55));
  ("OperationReserveSDRRepositoryReq", (10, 0, 0, 34));
  ("OperationReserveSDRRepositoryRsp", (11, 0, 0, 34));
  ("OperationSetSessionPrivilegeLevelReq", (6, 0, 0, 59));
  ("OperationSetSessionPrivilegeLevelRsp", (7, 0, 0, 59));
  ("operationGetDCMICapabilitiesInfoReq", (44, 220, 0, 1));
  ("operationGetDCMISensorInfoReq", (44, 220, 0, 7));
  ("operationGetPowerReadingReq", (44, 220, 0, 2))
]%N.
Definition command_operation : list (string * string) := [
  ("ChassisControlCmd", "OperationChassisControlReq");
  ("CloseSessionCmd", "OperationCloseSessionReq");
  ("GetChannelAuthenticationCapabilitiesCmd", "OperationGetChannelAuthenticationCapabilitiesReq");
  ("GetChannelCipherSuitesCmd", "OperationGetChannelCipherSuitesReq");
  ("GetChassisStatusCmd", "OperationGetChassisStatusReq");
  ("GetDCMISensorInfoCmd", "operationGetDCMISensorInfoReq");
  ("GetDeviceIDCmd", "OperationGetDeviceIDReq");
  ("GetPowerReadingCmd", "operationGetPowerReadingReq");
  ("GetSDRCmd", "OperationGetSDRReq");
  ("GetSDRRepositoryInfoCmd", "OperationGetSDRRepositoryInfoReq");
  ("GetSensorReadingCmd", "OperationGetSensorReadingReq");
  ("GetSessionInfoCmd", "OperationGetSessionInfoReq");
  ("GetSystemGUIDCmd", "OperationGetSystemGUIDReq");
  ("ReserveSDRRepositoryCmd", "OperationReserveSDRRepositoryReq");
  ("SetSessionPrivilegeLevelCmd", "OperationSetSessionPrivilegeLevelReq");
  ("getDCMICapabilitiesInfoCmd", "operationGetDCMICapabilitiesInfoReq")
].

Definition CipherSuite3 : N * N * N := (1, 1, 1)%N.
Definition CipherSuite17 : N * N * N := (3, 4, 1)%N.
Definition defaultCipherSuites : list (N * N * N) := [CipherSuite17; CipherSuite3].

(* algorithm tables: case values and the identifiers / integer literals of the case body *)
Definition auth_table : list (list N * string) := [
  ([1], "sha1.New 12 nil");
  ([3], "sha256.New 16 nil");
  ([2], "md5.New nil");
  ([], "nil fmt.Errorf")
]%N.
Definition integrity_table : list (list N * string) := [
  ([0], "nil fmt.Errorf");
  ([1], "hmac.New sha1.New g.K 1 12 nil");
  ([2], "hmac.New md5.New g.K 1 nil");
  ([4], "hmac.New sha256.New g.K 1 16 nil");
  ([], "nil fmt.Errorf")
]%N.
Definition confidentiality_table : list (list N * string) := [
  ([0], "nil fmt.Errorf");
  ([1], "16 g.K 2 ipmi.NewAES128CBC");
  ([], "nil fmt.Errorf")
]%N.
Definition seconds_multiplier_table : list (list N * string) := [
  ([0], "1");
  ([1], "60");
  ([2], "60 60");
  ([], "60 60 24")
]%N.

Definition temporary_codes : list N := [192; 195]%N.
Definition kConstantLength : N := 20%N.
Definition bcdPlusRunes : list N := [48; 49; 50; 51; 52; 53; 54; 55; 56; 57; 32; 45; 46; 58; 44; 95]%N.
Definition analog_parsers : list (N * string) := [(0%N, "AnalogDataFormatParserFunc parseAnalogDataFormatUnsigned"); (1%N, "AnalogDataFormatParserFunc parseAnalogDataFormatOnesComplement"); (2%N, "AnalogDataFormatParserFunc parseAnalogDataFormatTwosComplement")].
Definition string_decoders : list (N * string) := [(0%N, "StringDecoderFunc decode8BitAsciiLatin1"); (1%N, "StringDecoderFunc decodeBCDPlus"); (2%N, "StringDecoderFunc decodePacked6BitAscii"); (3%N, "StringDecoderFunc decode8BitAsciiLatin1")].
Definition linearisers : list (N * string) := [(1%N, "LineariserFunc math Log"); (2%N, "LineariserFunc math Log10"); (3%N, "LineariserFunc math Log2"); (4%N, "LineariserFunc math Exp"); (5%N, "LineariserFunc f float64 float64 math Pow 10 f"); (6%N, "LineariserFunc math Exp2"); (7%N, "LineariserFunc f float64 float64 math Pow f - 1"); (8%N, "LineariserFunc f float64 float64 math Pow f 2"); (9%N, "LineariserFunc f float64 float64 math Pow f 3"); (10%N, "LineariserFunc math Sqrt"); (11%N, "LineariserFunc f float64 float64 math Cbrt f")].
Definition ipmiSensorEntityIDs : list N := [55; 3; 7]%N.
Definition dcmiSensorEntityIDs : list N := [64; 65; 66]%N.
Definition console_session_id : N := 1%N.
Definition sessionless_literals : N * N := (6, 1)%N.  (* RMCP version, message sequence *)
Definition session_literals : N * N := (6, 1)%N.  (* RMCP version, message sequence *)

(* Footprint: package-level variables of the library and every write to one outside its declaration.
   kind: assign / incdec / mapstore / append / addr (address taken) *)
Definition package_vars : list string := [
  "bmc.ErrIncorrectPassword";
  "bmc.ErrNoSupportedCipherSuite";
  "bmc.ErrSensorReadingUnavailable";
  "bmc.ErrSensorScanningDisabled";
  "bmc.commandAttempts";
  "bmc.commandDuration";
  "bmc.commandFailures";
  "bmc.commandResponses";
  "bmc.commandRetries";
  "bmc.connectionOpenAttempts";
  "bmc.connectionOpenFailures";
  "bmc.connectionsOpen";
  "bmc.defaultCipherSuites";
  "bmc.errRetryableCode";
  "bmc.errSDRRepositoryModified";
  "bmc.namespace";
  "bmc.serializeOptions";
  "bmc.sessionOpenAttempts";
  "bmc.sessionOpenFailures";
  "bmc.sessionsOpen";
  "bmc.v2ConnectionOpenAttempts";
  "bmc.v2ConnectionOpenFailures";
  "bmc.v2ConnectionsOpen";
  "dcmi.dcmiSensorEntityIDs";
  "dcmi.ipmiSensorEntityIDs";
  "dcmi.layerTypeGetDCMICapabilitiesInfoEnhancedSystemPowerStatisticsAttrsRsp";
  "dcmi.layerTypeGetDCMICapabilitiesInfoManageabilityAccessAttrsRsp";
  "dcmi.layerTypeGetDCMICapabilitiesInfoMandatoryPlatformAttrsRsp";
  "dcmi.layerTypeGetDCMICapabilitiesInfoOptionalPlatformAttrsRsp";
  "dcmi.layerTypeGetDCMICapabilitiesInfoReq";
  "dcmi.layerTypeGetDCMICapabilitiesInfoSupportedCapabilitiesRsp";
  "dcmi.layerTypeGetDCMISensorInfoReq";
  "dcmi.layerTypeGetDCMISensorInfoRsp";
  "dcmi.layerTypeGetPowerReadingReq";
  "dcmi.layerTypeGetPowerReadingRsp";
  "dcmi.operationGetDCMICapabilitiesInfoReq";
  "dcmi.operationGetDCMISensorInfoReq";
  "dcmi.operationGetPowerReadingReq";
  "iana.enterpriseOrganisations";
  "ipmi.CipherSuite17";
  "ipmi.CipherSuite3";
  "ipmi.ErrNotLinearised";
  "ipmi.LayerTypeChassisControlReq";
  "ipmi.LayerTypeCloseSessionReq";
  "ipmi.LayerTypeFullSensorRecord";
  "ipmi.LayerTypeGetChannelAuthenticationCapabilitiesReq";
  "ipmi.LayerTypeGetChannelAuthenticationCapabilitiesRsp";
  "ipmi.LayerTypeGetChannelCipherSuitesReq";
  "ipmi.LayerTypeGetChannelCipherSuitesRsp";
  "ipmi.LayerTypeGetChassisStatusRsp";
  "ipmi.LayerTypeGetDeviceIDRsp";
  "ipmi.LayerTypeGetSDRRepositoryInfoRsp";
  "ipmi.LayerTypeGetSDRReq";
  "ipmi.LayerTypeGetSDRRsp";
  "ipmi.LayerTypeGetSensorReadingReq";
  "ipmi.LayerTypeGetSensorReadingRsp";
  "ipmi.LayerTypeGetSessionInfoReq";
  "ipmi.LayerTypeGetSessionInfoRsp";
  "ipmi.LayerTypeGetSystemGUIDRsp";
  "ipmi.LayerTypeMessage";
  "ipmi.LayerTypeOpenSessionReq";
  "ipmi.LayerTypeOpenSessionRsp";
  "ipmi.LayerTypeRAKPMessage1";
  "ipmi.LayerTypeRAKPMessage2";
  "ipmi.LayerTypeRAKPMessage3";
  "ipmi.LayerTypeRAKPMessage4";
  "ipmi.LayerTypeReserveSDRRepositoryRsp";
  "ipmi.LayerTypeSDR";
  "ipmi.LayerTypeSessionSelector";
  "ipmi.LayerTypeSetSessionPrivilegeLevelReq";
  "ipmi.LayerTypeSetSessionPrivilegeLevelRsp";
  "ipmi.LayerTypeV1Session";
  "ipmi.LayerTypeV2Session";
  "ipmi.OperationChassisControlReq";
  "ipmi.OperationCloseSessionReq";
  "ipmi.OperationGetChannelAuthenticationCapabilitiesReq";
  "ipmi.OperationGetChannelAuthenticationCapabilitiesRsp";
  "ipmi.OperationGetChannelCipherSuitesReq";
  "ipmi.OperationGetChannelCipherSuitesRsp";
  "ipmi.OperationGetChassisStatusReq";
  "ipmi.OperationGetChassisStatusRsp";
  "ipmi.OperationGetDeviceIDReq";
  "ipmi.OperationGetDeviceIDRsp";
  "ipmi.OperationGetSDRRepositoryInfoReq";
  "ipmi.OperationGetSDRRepositoryInfoRsp";
  "ipmi.OperationGetSDRReq";
  "ipmi.OperationGetSDRRsp";
  "ipmi.OperationGetSensorReadingReq";
  "ipmi.OperationGetSensorReadingRsp";
  "ipmi.OperationGetSessionInfoReq";
  "ipmi.OperationGetSessionInfoRsp";
  "ipmi.OperationGetSystemGUIDReq";
  "ipmi.OperationGetSystemGUIDRsp";
  "ipmi.OperationReserveSDRRepositoryReq";
  "ipmi.OperationReserveSDRRepositoryRsp";
  "ipmi.OperationSetSessionPrivilegeLevelReq";
  "ipmi.OperationSetSessionPrivilegeLevelRsp";
  "ipmi.PayloadDescriptorIPMI";
  "ipmi.PayloadDescriptorOpenSessionReq";
  "ipmi.PayloadDescriptorOpenSessionRsp";
  "ipmi.PayloadDescriptorRAKPMessage1";
  "ipmi.PayloadDescriptorRAKPMessage2";
  "ipmi.PayloadDescriptorRAKPMessage3";
  "ipmi.PayloadDescriptorRAKPMessage4";
  "ipmi.analogDataFormatDescriptions";
  "ipmi.analogDataFormatParsers";
  "ipmi.bcdPlusRunes";
  "ipmi.completionCodeDescriptions";
  "ipmi.entityIdDescriptions";
  "ipmi.layerTypeAES128CBC";
  "ipmi.linearisationDescriptions";
  "ipmi.linearisationLinearisers";
  "ipmi.operationLayerTypes";
  "ipmi.outputTypeDescriptions";
  "ipmi.payloadLayerTypes";
  "ipmi.payloadTypeDescriptions";
  "ipmi.rateUnitDurations";
  "ipmi.recordTypeDescriptions";
  "ipmi.recordTypeLayerTypes";
  "ipmi.sensorDirectionDescriptions";
  "ipmi.sensorTypeDescriptions";
  "ipmi.sensorUnitSymbols";
  "ipmi.statusCodeDescriptions";
  "ipmi.stringEncodingDecoders";
  "ipmi.stringEncodingDescriptions";
  "transport.namespace";
  "transport.receiveBytes";
  "transport.responseLatency";
  "transport.subsystem";
  "transport.transmitBytes"
].
Definition global_writes : list (string * string * string * string) := [
  ("dcmi", "operationGetDCMICapabilitiesInfoReq", "getDCMICapabilitiesInfoCmd.Operation", "addr");
  ("dcmi", "operationGetDCMISensorInfoReq", "GetDCMISensorInfoCmd.Operation", "addr");
  ("dcmi", "operationGetPowerReadingReq", "GetPowerReadingCmd.Operation", "addr");
  ("ipmi", "OperationChassisControlReq", "ChassisControlCmd.Operation", "addr");
  ("ipmi", "OperationCloseSessionReq", "CloseSessionCmd.Operation", "addr");
  ("ipmi", "OperationGetChannelAuthenticationCapabilitiesReq", "GetChannelAuthenticationCapabilitiesCmd.Operation", "addr");
  ("ipmi", "OperationGetChannelCipherSuitesReq", "GetChannelCipherSuitesCmd.Operation", "addr");
  ("ipmi", "OperationGetChassisStatusReq", "GetChassisStatusCmd.Operation", "addr");
  ("ipmi", "OperationGetDeviceIDReq", "GetDeviceIDCmd.Operation", "addr");
  ("ipmi", "OperationGetSDRRepositoryInfoReq", "GetSDRRepositoryInfoCmd.Operation", "addr");
  ("ipmi", "OperationGetSDRReq", "GetSDRCmd.Operation", "addr");
  ("ipmi", "OperationGetSensorReadingReq", "GetSensorReadingCmd.Operation", "addr");
  ("ipmi", "OperationGetSessionInfoReq", "GetSessionInfoCmd.Operation", "addr");
  ("ipmi", "OperationGetSystemGUIDReq", "GetSystemGUIDCmd.Operation", "addr");
  ("ipmi", "OperationReserveSDRRepositoryReq", "ReserveSDRRepositoryCmd.Operation", "addr");
  ("ipmi", "OperationSetSessionPrivilegeLevelReq", "SetSessionPrivilegeLevelCmd.Operation", "addr");
  ("ipmi", "PayloadDescriptorOpenSessionReq", "OpenSessionPayload.Descriptor", "addr");
  ("ipmi", "PayloadDescriptorRAKPMessage1", "RAKPMessage1Payload.Descriptor", "addr");
  ("ipmi", "PayloadDescriptorRAKPMessage3", "RAKPMessage3Payload.Descriptor", "addr");
  ("ipmi", "payloadLayerTypes", "RegisterOEMPayloadDescriptor", "mapstore")
].
(* Aliases: uses of package-level variables of reference type (slice, map, pointer, channel), directly or through a
   local variable assigned from one, in a position from which the shared backing store can be written:
   arg:<callee> / store / append / addr / return / alias (the assignment to the local itself) *)
Definition global_aliases : list (string * string * string * string) := [
  ("bmc", "defaultCipherSuites", "V2SessionlessTransport.determineCipherSuite", "addr");
  ("bmc", "defaultCipherSuites", "V2SessionlessTransport.determineCipherSuite", "alias");
  ("dcmi", "dcmiSensorEntityIDs", "GetSensorInfo", "arg:getSensorMap");
  ("dcmi", "ipmiSensorEntityIDs", "GetSensorInfo", "arg:getSensorMap")
].
