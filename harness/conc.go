package main

// C19: N goroutines, each with its own simulated BMC, transport, connection,
// session and seeded workload, run concurrently (under -race in the
// harness_race binary) and then alone; the per-goroutine observations must be
// identical.

import (
	"encoding/json"
	"fmt"
	"math/rand"
	"strings"
	"sync"
)

func workload(seed int64, udp bool) scenario {
	rng := rand.New(rand.NewSource(seed))
	suites := [][]int{{1, 1, 1}, {3, 4, 1}, {2, 2, 1}, {1, 4, 1}, {3, 1, 1}}
	su := suites[rng.Intn(len(suites))]
	pw := fmt.Sprintf("%x", []byte(fmt.Sprintf("pw-%d", seed)))
	// nothing is scripted lost or silent, so the per-attempt timeout never decides an outcome: keep it far from any
	// scheduling delay under the race detector
	sc := scenario{TimeoutMs: 5000}
	if udp {
		// over the library's real UDP transport; nothing is scripted lost, so a generous per-attempt timeout keeps
		// scheduling delays under the race detector from turning into retransmissions
		sc.UDP, sc.TimeoutMs = true, 5000
	}
	sc.BMC = scnBMC{Users: []scnUser{{Name: "admin", Password: pw, MaxPriv: 4}}, Seed: seed,
		// the GUID is distinct per connection, so that another BMC's bytes are visible in a result
		GUID: fmt.Sprintf("%032x", uint64(seed)*0x9e3779b97f4a7c15+1), Suites: [][]int{{100, su[0], su[1], su[2]}, {3, 1, 1, 1}}, LooseSeq: true}
	// some BMCs are "modern" (also offer suite 17), some are not: with the library's default preferences the
	// proposal must depend only on this connection's BMC
	modern := rng.Intn(2) == 0
	if modern {
		sc.BMC.Suites = append(sc.BMC.Suites, []int{17, 3, 4, 1})
	}
	for i := 0; i < 4; i++ {
		body := make([]byte, 46)
		rng.Read(body)
		// three ID-string bytes in each of the encodings: 8-bit Latin-1, packed 6-bit ASCII, BCD plus, "Unicode"
		body[42] = []byte{0xC3, 0x83, 0x43, 0x03}[rng.Intn(4)]
		rec := append([]byte{byte(i + 1), 0, 0x51, 0x01, byte(len(body))}, body...)
		sc.BMC.SDRs = append(sc.BMC.SDRs, scnSDR{ID: uint16(i + 1), Data: fmt.Sprintf("%x", rec)})
	}
	cmds := []scnCmd{{Name: "getdeviceid"}, {Name: "getchassisstatus"}, {Name: "getsystemguid"}, {Name: "getsdrrepoinfo"},
		{Name: "authcaps", P: []int64{1, 14, 4}}, {Name: "sessioninfo", P: []int64{0, 0, 0}}, {Name: "powerreading", P: []int64{1, 0}},
		{Name: "dcmisensorinfo", P: []int64{1, 65, 0, 1}}, {Name: "sensorreading", P: []int64{3, 0}}}
	// (dupprev: a stale duplicate of an earlier reply on this connection arrives first - a legal history on UDP, and one that
	// takes the library down its "not the response to this command" path)
	scripts := [][]string{{"ok"}, {"ok"}, {"busy", "ok"}, {"garbage", "ok"}, {"c3", "badsig", "ok"}, {"dupprev", "ok"}}
	sc.Steps = append(sc.Steps, scnStep{Op: "cmd", Conn: "sessionless", Cmd: scnCmd{Name: "authcaps", P: []int64{1, 14, 4}}, Script: scripts[rng.Intn(len(scripts))]})
	for round := 0; round < 1+rng.Intn(2); round++ {
		var offered [][]int
		shared := false
		switch rng.Intn(4) {
		case 3:
			shared = true // one process-wide preference slice, passed by every goroutine (2/4/1 - offered by no BMC -, then 17, then 3)
		case 0:
			offered = [][]int{su}
		case 1:
			offered = [][]int{{2, 4, 1}, su} // forces cipher suite discovery
		default:
			offered = nil // the library's defaults (17, then 3), with discovery
		}
		sc.Steps = append(sc.Steps, scnStep{Op: "open", User: "admin", Password: pw, Priv: 4, Lookup: true, Suites: offered, SharedPrefs: shared})
		for i := 0; i < 3+rng.Intn(8); i++ {
			c := cmds[rng.Intn(len(cmds))]
			sc.Steps = append(sc.Steps, scnStep{Op: "cmd", Conn: "session", Cmd: c, Script: scripts[rng.Intn(len(scripts))]})
		}
		if rng.Intn(2) == 0 {
			sc.Steps = append(sc.Steps, scnStep{Op: "sdr", Conn: "session", CtxMs: 5000})
		}
		if rng.Intn(2) == 0 {
			sc.Steps = append(sc.Steps, scnStep{Op: "dcmisensorinfo", Conn: "session"})
		}
		sc.Steps = append(sc.Steps, scnStep{Op: "close"})
	}
	return sc
}

// observe runs one workload and returns what the property compares: per step the result and what the
// BMC saw (its decoded view: IVs and ciphertext are random and not compared)
func observe(sc scenario) string {
	st := newState(&sc)
	defer st.close()
	var sb strings.Builder
	for i := range sc.Steps {
		r := runStepNoMetrics(st, &sc.Steps[i])
		fmt.Fprintf(&sb, "%s|%s|%d|%s|%s|%v|", r.Op, r.Err, r.Code, r.Rsp, r.Value, r.Actions)
		if r.Session != nil {
			// the algorithms the session ended up with (keys depend on the console's random number)
			fmt.Fprintf(&sb, "suite=%s/%s/%s|", r.Session["auth"], r.Session["integ"], r.Session["conf"])
		}
		for _, e := range r.BMC {
			fmt.Fprintf(&sb, "%s,%v,%d,%d,%d,%d,%s,%d", e.Kind, e.Accepted, e.SID, e.Seq, e.NetFn, e.Cmd, e.Data, e.CC)
			if e.Kind == "opensession" {
				// the proposal: tag, privilege level, console session ID, algorithm payloads
				fmt.Fprintf(&sb, ",%s", e.Payload)
			}
			sb.WriteString(";")
		}
		sb.WriteString("\n")
	}
	return sb.String()
}

// runC19 runs the n workloads of (seed) concurrently and then once more one after the other in the same
// process; the baseline they are compared with (each workload alone in a fresh process: c19solo) is
// computed by the caller, so that a change which edits process-wide state cannot contaminate it.
func runC19(n int, seed int64, udp bool) string {
	conc := make([]string, n)
	var wg sync.WaitGroup
	for i := 0; i < n; i++ {
		wg.Add(1)
		go func(i int) {
			defer wg.Done()
			conc[i] = observe(workload(seed*100+int64(i), udp))
		}(i)
	}
	wg.Wait()
	after := make([]string, n)
	steps := 0
	for i := 0; i < n; i++ {
		after[i] = observe(workload(seed*100+int64(i), udp))
		steps += strings.Count(after[i], "\n")
	}
	js, _ := json.Marshal(map[string]any{"n": n, "seed": seed, "steps": steps, "concurrent": conc, "after": after})
	return string(js)
}

func init() {
	register("c19", func(w []string) string { return runC19(atoi(w[1]), int64(atoi(w[2])), len(w) > 3 && w[3] == "udp") })
	register("c19solo", func(w []string) string {
		js, _ := json.Marshal(map[string]any{"wseed": atoi(w[1]), "obs": observe(workload(int64(atoi(w[1])), len(w) > 2 && w[2] == "udp"))})
		return string(js)
	})
}
