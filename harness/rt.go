package main

import (
	"strings"

	"github.com/gebn/bmc/pkg/ipmi"
	"github.com/google/gopacket"
)

// rt <layer> <hex>: decode, serialise the decoded value over its payload,
// decode the result again.  Output: ok <re-serialised hex> <first decode> || <second decode>
func init() {
	// rtp <layer> <prior hex> <hex>: the same, but both decodes go into a value that has decoded <prior>
	// before (the theorems quantify over the previous contents of the layer)
	register("rtp", func(w []string) string { return roundTrip(w[1], unhex(w[2]), unhex(w[3])) })
	register("rt", func(w []string) string { return roundTrip(w[1], nil, unhex(w[2])) })
	_ = ipmi.LayerTypeMessage
}

func roundTrip(name string, prior, data []byte) string {
	{
		run := guarded
		if strings.HasPrefix(name, "aes") {
			// the re-serialisation draws a random IV: a single run on an exact-capacity copy
			run = func(data []byte, f func(d []byte) string) (out string) {
				defer func() {
					if r := recover(); r != nil {
						out = "fault"
					}
				}()
				cp := make([]byte, len(data))
				copy(cp, data)
				return f(cp[:len(cp):len(cp)])
			}
		}
		return run(data, func(d []byte) string {
			parts := strings.Split(name, ":")
			spec := layerSpecs[parts[0]]
			l := spec.mk(parts[1:])
			if prior != nil {
				_ = l.DecodeFromBytes(append([]byte{}, prior...), gopacket.NilDecodeFeedback)
			}
			in := append([]byte{}, d...)
			if err := l.DecodeFromBytes(in, gopacket.NilDecodeFeedback); err != nil {
				return "err"
			}
			first := showLayer(l, spec.payload)
			ser, ok := l.(gopacket.SerializableLayer)
			if !ok {
				return "notserializable"
			}
			var payload []byte
			if pl, ok := l.(interface{ LayerPayload() []byte }); ok && spec.payload {
				payload = append([]byte{}, pl.LayerPayload()...)
			}
			buf := usedBuffer()
			if err := gopacket.SerializeLayers(buf, serOpts, ser, gopacket.Payload(payload)); err != nil {
				return "sererr"
			}
			out := append([]byte{}, buf.Bytes()...)
			l2 := spec.mk(parts[1:])
			if prior != nil {
				_ = l2.DecodeFromBytes(append([]byte{}, prior...), gopacket.NilDecodeFeedback)
			}
			if err := l2.DecodeFromBytes(append([]byte{}, out...), gopacket.NilDecodeFeedback); err != nil {
				return "ok " + tohex(out) + " " + first + " || err"
			}
			return "ok " + tohex(out) + " " + first + " || " + showLayer(l2, spec.payload)
		})
	}
}
