package main

import (
	"crypto/aes"
	"crypto/cipher"
	"crypto/hmac"
	"crypto/md5"
	"crypto/sha1"
	"crypto/sha256"
	"fmt"
	"hash"
	"math/rand"
	"strings"
	"sync"
	"time"

	"github.com/gebn/bmc"
	"github.com/gebn/bmc/pkg/dcmi"
	"github.com/gebn/bmc/pkg/ipmi"
)

func strResult(s string, c int, err error) string {
	if err != nil {
		return "err"
	}
	return fmt.Sprintf("ok %s %d", tohex([]byte(s)), c)
}

func init() {
	register("bcd", func(w []string) string {
		return fmt.Sprint(bmc.VerifBCDDecode(byte(atoi(w[1]))))
	})
	register("ones", func(w []string) string {
		return fmt.Sprint(bmc.VerifOnes(byte(atoi(w[1]))))
	})
	register("twos", func(w []string) string {
		return fmt.Sprint(bmc.VerifTwos([2]byte{byte(atoi(w[1])), byte(atoi(w[2]))}, uint8(atoi(w[3]))))
	})
	register("parse", func(w []string) string {
		p, err := ipmi.AnalogDataFormat(atoi(w[1])).Parser()
		if err != nil {
			return "none"
		}
		return fmt.Sprint(p.Parse(byte(atoi(w[2]))))
	})
	register("checksum", func(w []string) string {
		return fmt.Sprint(ipmi.VerifChecksum(unhex(w[1])))
	})
	register("str", func(w []string) string {
		enc, c, data := atoi(w[1]), atoi(w[2]), unhex(w[3])
		if _, err := ipmi.StringEncoding(enc).Decoder(); err != nil {
			return "none"
		}
		return guarded(data, func(d []byte) string {
			// through the exported decoder table, as the Full Sensor Record does
			dec, _ := ipmi.StringEncoding(enc).Decoder()
			return strResult(dec.Decode(d, c))
		})
	})
	register("rdur", func(w []string) string {
		d := dcmi.VerifRollingAvgPeriodDuration(byte(atoi(w[1])))
		if d%time.Second != 0 {
			return "notwhole"
		}
		return fmt.Sprint(int64(d / time.Second))
	})
	register("rbyte", func(w []string) string {
		return fmt.Sprint(dcmi.VerifRollingAvgPeriodByte(time.Duration(atou64(w[1])) * time.Second))
	})
	register("ent", func(w []string) string {
		i := ipmi.EntityInstance(atoi(w[1]))
		return fmt.Sprintf("%v %v", i.IsSystemRelative(), i.IsDeviceRelative())
	})
}

func init() {
	// Go's crypto on the same inputs as the Gallina instances (validates the
	// executable MD5/SHA-1/SHA-256/AES of the model on every run)
	register("hmac", func(w []string) string {
		var h func() hash.Hash
		switch atoi(w[1]) {
		case 1:
			h = sha1.New
		case 2:
			h = md5.New
		case 3:
			h = sha256.New
		default:
			return "-"
		}
		m := hmac.New(h, unhex(w[2]))
		m.Write(unhex(w[3]))
		return tohex(m.Sum(nil))
	})
	register("cbcenc", func(w []string) string {
		blk, err := aes.NewCipher(unhex(w[1]))
		if err != nil {
			return "err"
		}
		pt := unhex(w[3])
		out := make([]byte, len(pt)/16*16)
		cipher.NewCBCEncrypter(blk, unhex(w[2])).CryptBlocks(out, pt[:len(out)])
		return tohex(out)
	})
	register("cbcdec", func(w []string) string {
		blk, err := aes.NewCipher(unhex(w[1]))
		if err != nil {
			return "err"
		}
		ct := unhex(w[3])
		out := make([]byte, len(ct)/16*16)
		cipher.NewCBCDecrypter(blk, unhex(w[2])).CryptBlocks(out, ct[:len(out)])
		return tohex(out)
	})
}

// concprim: the conversions are functions of their arguments - also when several goroutines (one per connection, as in
// a process that monitors many BMCs) use them at once.  g goroutines, each with its own inputs, n rounds; every result
// is compared with what the same call returned alone, beforehand.
func init() {
	register("concprim", func(w []string) string {
		g, n, seed := atoi(w[1]), atoi(w[2]), int64(atoi(w[3]))
		type job struct {
			enc, c int
			data   []byte
			sum    []byte
			want   string
		}
		rng := rand.New(rand.NewSource(seed))
		eval := func(j *job) string {
			dec, err := ipmi.StringEncoding(j.enc).Decoder()
			if err != nil {
				return "none"
			}
			s, k, err := dec.Decode(j.data, j.c)
			return fmt.Sprintf("%s|%d|%v|%d|%d", tohex([]byte(s)), k, err != nil, ipmi.VerifChecksum(j.sum), dcmi.VerifRollingAvgPeriodByte(time.Duration(len(j.sum))*time.Minute))
		}
		jobs := make([]*job, g)
		for i := range jobs {
			c := 1 + rng.Intn(30)
			data := make([]byte, 32)
			rng.Read(data)
			sum := make([]byte, 1+rng.Intn(40))
			rng.Read(sum)
			jobs[i] = &job{enc: 1 + i%3, c: c, data: data, sum: sum}
			jobs[i].want = eval(jobs[i])
		}
		var wg sync.WaitGroup
		bad := make([]string, g)
		for i := range jobs {
			wg.Add(1)
			go func(i int) {
				defer wg.Done()
				for r := 0; r < n; r++ {
					if got := eval(jobs[i]); got != jobs[i].want && bad[i] == "" {
						bad[i] = fmt.Sprintf("goroutine %d round %d encoding %d count %d data %s: %s alone, %s among others", i, r, jobs[i].enc, jobs[i].c, tohex(jobs[i].data), jobs[i].want, got)
					}
				}
			}(i)
		}
		wg.Wait()
		for _, b := range bad {
			if b != "" {
				return "mismatch " + strings.ReplaceAll(b, " ", "_")
			}
		}
		return "ok"
	})
}
