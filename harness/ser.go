package main

import (
	"strings"

	"github.com/gebn/bmc/pkg/ipmi"
	"github.com/google/gopacket"
)

var serOpts = gopacket.SerializeOptions{FixLengths: true, ComputeChecksums: true}

// usedBuffer returns a serialize buffer the way a connection's buffer looks after earlier packets: cleared, but with the
// bytes of what was serialised before (here 0xA7 everywhere) still in its backing array.  gopacket does not zero the
// memory PrependBytes / AppendBytes hand out, so a layer that does not write every byte it owns shows its omission here
// (and on every connection, which builds all its packets in one buffer), but not in a fresh buffer.
func usedBuffer() gopacket.SerializeBuffer {
	buf := gopacket.NewSerializeBufferExpectedSize(700, 700)
	pre, _ := buf.PrependBytes(700)
	for i := range pre {
		pre[i] = 0xA7
	}
	app, _ := buf.AppendBytes(700)
	for i := range app {
		app[i] = 0xA7
	}
	buf.Clear()
	return buf
}

func serLayers(ls ...gopacket.SerializableLayer) (out string) {
	defer func() {
		if r := recover(); r != nil {
			out = "fault"
		}
	}()
	buf := usedBuffer()
	if err := gopacket.SerializeLayers(buf, serOpts, ls...); err != nil {
		return "err"
	}
	return "ok " + tohex(buf.Bytes())
}

func cmdOfSpec(spec string) scnCmd {
	parts := strings.SplitN(spec, ":", 2)
	c := scnCmd{Name: parts[0]}
	if c.Name == "none" {
		c.Name = "getdeviceid"
		return c
	}
	if c.Name == "raw" {
		c.Hex = parts[1]
		c.P = []int64{0x30, 1, 0, 0}
		return c
	}
	if len(parts) > 1 {
		for _, x := range strings.Split(parts[1], ",") {
			c.P = append(c.P, int64(atou64(x)))
		}
	}
	if c.Name == "sensorreading" {
		c.P = append(c.P, 0)
	}
	return c
}

func init() {
	// serreq <reqspec>: the request body layer alone
	register("serreq", func(w []string) string {
		cmd, _ := buildCmd(cmdOfSpec(w[1]))
		if cmd.Request() == nil {
			return "ok -"
		}
		return serLayers(cmd.Request())
	})
	// seropen tag priv id auth integ conf
	register("seropen", func(w []string) string {
		return serLayers(&ipmi.OpenSessionReq{Tag: uint8(atoi(w[1])), MaxPrivilegeLevel: ipmi.PrivilegeLevel(atoi(w[2])), SessionID: uint32(atou64(w[3])),
			AuthenticationPayload:  ipmi.AuthenticationPayload{Algorithm: ipmi.AuthenticationAlgorithm(atoi(w[4]))},
			IntegrityPayload:       ipmi.IntegrityPayload{Algorithm: ipmi.IntegrityAlgorithm(atoi(w[5]))},
			ConfidentialityPayload: ipmi.ConfidentialityPayload{Algorithm: ipmi.ConfidentialityAlgorithm(atoi(w[6]))}})
	})
	// serrakp1 tag bmcid random lookup priv usernamehex
	register("serrakp1", func(w []string) string {
		var rnd [16]byte
		copy(rnd[:], unhex(w[3]))
		return serLayers(&ipmi.RAKPMessage1{Tag: uint8(atoi(w[1])), ManagedSystemSessionID: uint32(atou64(w[2])), RemoteConsoleRandom: rnd,
			PrivilegeLevelLookup: w[4] == "1", MaxPrivilegeLevel: ipmi.PrivilegeLevel(atoi(w[5])), Username: string(unhex(w[6]))})
	})
	// serrakp3 tag status bmcid authcodehex
	register("serrakp3", func(w []string) string {
		return serLayers(&ipmi.RAKPMessage3{Tag: uint8(atoi(w[1])), Status: ipmi.StatusCode(atoi(w[2])), ManagedSystemSessionID: uint32(atou64(w[3])),
			AuthCode: unhex(w[4])})
	})
}
