// Command harness runs gebn/bmc (built from /repo's working tree with
// -tags verif) on the inputs given one per line on stdin and prints one
// canonical result line per input.  The line protocol is shared with the
// OCaml oracle extracted from the Coq model, so outputs diff line by line.
package main

import (
	"bufio"
	"encoding/hex"
	"fmt"
	"os"
	"strconv"
	"strings"
)

type handler func(w []string) string

var handlers = map[string]handler{}

func register(name string, h handler) { handlers[name] = h }

func atoi(s string) int {
	v, err := strconv.ParseInt(s, 10, 64)
	if err != nil {
		panic("bad int " + s)
	}
	return int(v)
}

func atou64(s string) uint64 {
	v, err := strconv.ParseUint(s, 10, 64)
	if err != nil {
		panic("bad uint " + s)
	}
	return v
}

func unhex(s string) []byte {
	if s == "-" {
		return []byte{}
	}
	b, err := hex.DecodeString(s)
	if err != nil {
		panic("bad hex " + s)
	}
	return b
}

func tohex(b []byte) string {
	if len(b) == 0 {
		return "-"
	}
	return hex.EncodeToString(b)
}

// guarded runs f on data three ways: on an exact-capacity copy (so any slice
// past len panics) and on two windows into a 512-byte buffer filled with two
// different poison bytes after the window (so any read past len shows up as a
// result that depends on the poison).  "fault" is reported for a panic or a
// poison-dependent result.
func guarded(data []byte, f func(d []byte) string) string {
	run := func(d []byte) (out string) {
		defer func() {
			if r := recover(); r != nil {
				out = "fault"
			}
		}()
		return f(d)
	}
	exact := make([]byte, len(data))
	copy(exact, data)
	r0 := run(exact[:len(data):len(data)])
	if r0 == "fault" {
		return "fault"
	}
	if len(data) > 500 {
		return r0
	}
	var outs [2]string
	for k, poison := range []byte{0x00, 0xA7} {
		buf := make([]byte, 1024)
		for i := range buf {
			buf[i] = poison
		}
		copy(buf, data)
		outs[k] = run(buf[:len(data)])
	}
	if outs[0] != outs[1] || outs[0] != r0 {
		return "fault"
	}
	return r0
}

func main() {
	in := bufio.NewReaderSize(os.Stdin, 1<<20)
	out := bufio.NewWriterSize(os.Stdout, 1<<20)
	defer out.Flush()
	for {
		line, err := in.ReadString('\n')
		line = strings.TrimSpace(line)
		if line != "" {
			w := strings.Fields(line)
			h, ok := handlers[w[0]]
			if !ok {
				fmt.Fprintf(os.Stderr, "harness: unknown command %q\n", w[0])
				out.Flush()
				os.Exit(2)
			}
			out.WriteString(h(w))
			out.WriteByte('\n')
		}
		if err != nil {
			break
		}
	}
}
