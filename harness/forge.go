package main

import (
	"strconv"
	"strings"
	"math/rand"

	"verifharness/sim"
)

// forge builds a reply that a party without (or, for the pad cases, with) the
// session keys could put on the wire: a response message for the right command
// carrying a *different* value than the BMC's, wrapped in the given defective
// way.  ev is the BMC's record of the request just processed.
func forge(kind string, ev *sim.Event, s *sim.Session, rng *rand.Rand) []byte {
	m := ev.Message
	data := []byte{0x00} // completion code normal
	// "<kind>@<cc>": the forged response carries completion code <cc> instead of 00h (a refusal the BMC never issued)
	if i := strings.LastIndex(kind, "@"); i >= 0 {
		cc, _ := strconv.Atoi(kind[i+1:])
		data[0] = byte(cc)
		kind = kind[:i]
	}
	if m.NetFn == 0x2c {
		data = append(data, m.Body)
	}
	// "padbyte:<extra>:<k>": <extra> more value bytes (so that every pad length occurs), the k-th pad byte
	// (mod the pad length) wrong, everything else - AuthCode included - right
	extra, padAt := 0, -1
	if strings.HasPrefix(kind, "padbyte:") || strings.HasPrefix(kind, "padmulti:") {
		w := strings.Split(kind, ":")
		extra, _ = strconv.Atoi(w[1])
		padAt, _ = strconv.Atoi(w[2])
		kind = w[0]
	}
	// "padlong:<N>": a correctly signed reply whose confidentiality pad is 01 02 .. N followed by the pad length N with
	// N > 16 - every pad byte right, the length beyond what IPMI v2.0 13.29 allows (15)
	padLong := 0
	if strings.HasPrefix(kind, "padlong:") {
		padLong, _ = strconv.Atoi(strings.Split(kind, ":")[1])
		kind = "padlong"
		// message length so that message + N pad bytes + the length byte fill whole blocks
		base := 7 + len(data) + 20
		extra = (16 - (base+padLong+1)%16) % 16
	}
	// "pad16:<k>" / "pad16ok": the message fills its last block exactly, and the pad is the 16-byte form 01 02 .. 10, 10
	// (what a crypto library that always pads produces); pad16:<k> has its k-th byte wrong
	pad16 := -2
	if strings.HasPrefix(kind, "pad16") {
		pad16 = -1
		if strings.HasPrefix(kind, "pad16:") {
			pad16, _ = strconv.Atoi(strings.Split(kind, ":")[1])
		}
		kind = "pad16"
		extra = (16 - (7+len(data)+20+1)%16) % 16
	}
	for i := 0; i < 20+extra; i++ { // a value the BMC never produced
		data = append(data, 0xA5)
	}
	msg := sim.Message(m.RqAddr, m.NetFn+1, m.RqLUN, m.RsAddr, m.RqSeq, m.RsLUN, m.Cmd, data)
	iv := make([]byte, 16)
	rng.Read(iv)
	seq := s.OutSeq + 1
	enc := sim.EncryptAES(s.K2, iv, msg)
	badKey := append([]byte{}, s.K1...)
	badKey[0] ^= 1
	full := func(sid uint32, k1 []byte) []byte {
		return sim.WrapRaw(0xC0, sid, seq, enc, s.Integ, k1)
	}
	sigLen := map[uint8]int{1: 12, 2: 16, 4: 16}[s.Integ]
	switch kind {
	case "valid":
		// control: a correctly protected forgery must be accepted (shows the catalogue is not vacuous)
		return full(s.ConsoleID, s.K1)
	case "noauth":
		return sim.WrapRaw(0x80, s.ConsoleID, seq, enc, 0, nil)
	case "plain":
		return sim.WrapRaw(0x00, s.ConsoleID, seq, msg, 0, nil)
	case "emptysig":
		p := full(s.ConsoleID, s.K1)
		return p[:len(p)-sigLen]
	case "shortsig":
		p := full(s.ConsoleID, s.K1)
		return p[:len(p)-sigLen+4]
	case "randsig":
		p := full(s.ConsoleID, s.K1)
		rng.Read(p[len(p)-sigLen:])
		return p
	case "wrongkey":
		return full(s.ConsoleID, badKey)
	case "wrongsid":
		return full(s.ConsoleID+1, s.K1)
	case "bmcsid":
		return full(s.BMCID, s.K1)
	case "zerosid":
		return full(0, s.K1)
	case "v15none", "v15md5":
		// the same forged message in an IPMI v1.5 session wrapper (authentication type none, or MD5 with a made-up
		// AuthCode), unencrypted: no key is needed to produce it
		p := []byte{0x06, 0x00, 0xff, 0x07}
		if kind == "v15none" {
			p = append(p, 0x00)
		} else {
			p = append(p, 0x02)
		}
		p = append(p, byte(seq), byte(seq>>8), byte(seq>>16), byte(seq>>24))
		p = append(p, byte(s.ConsoleID), byte(s.ConsoleID>>8), byte(s.ConsoleID>>16), byte(s.ConsoleID>>24))
		if kind == "v15md5" {
			code := make([]byte, 16)
			rng.Read(code)
			p = append(p, code...)
		}
		p = append(p, byte(len(msg)))
		return append(p, msg...)
	case "pad16":
		plain := append([]byte{}, iv...)
		plain = append(plain, msg...)
		for i := 1; i <= 16; i++ {
			plain = append(plain, uint8(i))
		}
		plain = append(plain, 16)
		if pad16 >= 0 {
			plain[len(plain)-1-16+pad16%16] ^= 0x20
		}
		sim.EncryptAESRaw(s.K2, plain)
		return sim.WrapRaw(0xC0, s.ConsoleID, seq, plain, s.Integ, s.K1)
	case "padlong":
		plain := append([]byte{}, iv...)
		plain = append(plain, msg...)
		for i := 1; i <= padLong; i++ {
			plain = append(plain, uint8(i))
		}
		plain = append(plain, uint8(padLong))
		sim.EncryptAESRaw(s.K2, plain)
		return sim.WrapRaw(0xC0, s.ConsoleID, seq, plain, s.Integ, s.K1)
	case "badpad", "padover", "padzero", "padbyte", "padmulti":
		// needs the keys: correctly signed, confidentiality pad malformed
		n := (16 - (len(msg)+1)%16) % 16
		plain := append([]byte{}, iv...)
		plain = append(plain, msg...)
		for i := 1; i <= n; i++ {
			plain = append(plain, uint8(i))
		}
		plain = append(plain, uint8(n))
		switch kind {
		case "badpad":
			if n == 0 {
				// no pad bytes to corrupt: claim one pad byte that is not 01
				plain[len(plain)-1] = 1
				plain[len(plain)-2] ^= 0x40
				if plain[len(plain)-2] == 1 {
					plain[len(plain)-2] = 2
				}
			} else {
				plain[len(plain)-2] ^= 0x10
			}
		case "padbyte":
			if n == 0 {
				plain[len(plain)-1] = 1
				plain[len(plain)-2] = 0x5a // a one-byte pad that is not 01
			} else {
				plain[len(plain)-1-n+padAt%n] ^= 0x20
			}
		case "padmulti":
			// several pad bytes wrong at once, chosen so that naive accumulations of the differences cancel: two bytes with
			// bit 7 flipped, four with bit 6, eight with bit 5, all sixteen with bit 4 (as many as the pad holds)
			k := []int{2, 4, 8, 16}[padAt%4]
			bit := []byte{0x80, 0x40, 0x20, 0x10}[padAt%4]
			if n < k {
				k, bit = n-n%2, 0x80
			}
			if k == 0 {
				plain[len(plain)-1] = 1
				plain[len(plain)-2] = 0x5a
			}
			for i := 0; i < k; i++ {
				plain[len(plain)-1-n+i] ^= bit
			}
		case "padover":
			plain[len(plain)-1] = uint8(17 + rng.Intn(239))
		case "padzero":
			// pad bytes start at 00 instead of 01
			for i := 0; i < n; i++ {
				plain[len(plain)-1-n+i] = uint8(i)
			}
			if n == 0 {
				plain[len(plain)-1] = 0x11
			}
		}
		sim.EncryptAESRaw(s.K2, plain)
		return sim.WrapRaw(0xC0, s.ConsoleID, seq, plain, s.Integ, s.K1)
	}
	panic("unknown forgery " + kind)
}
