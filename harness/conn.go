package main

// Connection-level scenarios: the real library (V2SessionlessTransport /
// V2Session built through the verif hook) talks to the simulated BMC over an
// in-memory transport with a scripted fault injector.  One scenario (JSON) per
// input line, one transcript (JSON) per output line.

import (
	"bytes"
	"sync"
	"context"
	"encoding/hex"
	"encoding/json"
	"errors"
	"fmt"
	"math/rand"
	"net"
	"sort"
	"strings"
	"time"

	"verifharness/sim"

	"github.com/cenkalti/backoff/v4"
	"github.com/gebn/bmc"
	"github.com/gebn/bmc/pkg/dcmi"
	"github.com/gebn/bmc/pkg/ipmi"
	"github.com/google/gopacket"
	"github.com/prometheus/client_golang/prometheus"
	dto "github.com/prometheus/client_model/go"
)

type scnUser struct {
	Name     string `json:"name"`
	Password string `json:"password"`
	MaxPriv  uint8  `json:"maxpriv"`
}

type scnBMC struct {
	Users            []scnUser           `json:"users"`
	KG               string              `json:"kg"`
	GUID             string              `json:"guid"`
	Seed             int64               `json:"seed"`
	Suites           [][]int             `json:"suites"` // [id, auth, integ, conf, oemiana]
	Records          *string             `json:"records"`
	SDRs             []scnSDR            `json:"sdrs"`
	Sensors          map[string]string   `json:"sensors"`
	DCMISensors      map[string][]uint16 `json:"dcmisensors"`
	PageSize         int                 `json:"pagesize"`
	Overcount        int                 `json:"overcount"`
	OverridePassword *string             `json:"override_password"`
	OverrideKG       *string             `json:"override_kg"`
	DeviceID         string              `json:"deviceid"`
	Chassis          string              `json:"chassis"`
	Addition         uint32              `json:"addition"`
	Erase            uint32              `json:"erase"`
	DCMICaps         map[string]string   `json:"dcmicaps"`
	PowerReading     string              `json:"powerreading"`
	LooseSeq         bool                `json:"loose"`
	FirstSessionID   uint32              `json:"first_session_id"`
}

type scnSDR struct {
	ID   uint16 `json:"id"`
	Data string `json:"data"`
}

type scnCmd struct {
	Name string  `json:"name"`
	P    []int64 `json:"p"`   // numeric parameters, meaning depends on Name
	Hex  string  `json:"hex"` // request body for "raw"
}

// an event on the BMC side scheduled before the n-th datagram of a step
type scnEvent struct {
	Before int      `json:"before"` // index of the transmission within the step (0-based)
	Kind   string   `json:"kind"`   // "modify_sdr", "cancel_reservation"
	SDRs   []scnSDR `json:"sdrs"`
	Add    uint32   `json:"addition"`
	Erase  uint32   `json:"erase"`
}

type scnStep struct {
	Op       string     `json:"op"` // dial-less ops: cmd, open, close, sdr, ciphersuites, dcmisensorinfo, sensor
	Conn     string     `json:"conn"`
	Cmd      scnCmd     `json:"cmd"`
	Script   []string   `json:"script"`
	CtxMs    int        `json:"ctx_ms"`
	CancelMs int        `json:"cancel_ms"` // >0: the context has no deadline and is cancelled after this many ms
	User     string     `json:"user"`
	Password string     `json:"password"`
	KG       string     `json:"kg"`
	Priv     uint8      `json:"priv"`
	Lookup   bool       `json:"lookup"`
	Suites   [][]int    `json:"suites"` // [auth, integ, conf]
	Events   []scnEvent `json:"events"`
	FSR      string     `json:"fsr"` // sensor: Full Sensor Record body (hex)
	BMCSet   scnBMC     `json:"bmcset"`
	KGEmpty  bool       `json:"kg_empty"` // open: KG is a zero-length, non-nil slice (what []byte("") or hex.DecodeString("") give)
	Reuse    bool       `json:"reuse"`    // cmd: send the very command value of the last step with the same command name again
	ViaNewSession bool  `json:"via_newsession"` // open: through the version-agnostic entry point NewSession(ctx, *SessionOpts)
	SharedPrefs bool    `json:"shared_prefs"` // open: the cipher-suite preference list is ONE process-wide slice every caller passes (callers only ever read it)
	ReuseOpts bool      `json:"reuse_opts"` // open: the caller keeps ONE *V2SessionOpts for all its opens and only assigns the fields it uses (KG only when it has one)
	KeepCtx  bool       `json:"keep_ctx"` // the step's context stays alive after the step (until the scenario ends)
}

type scenario struct {
	BMC       scnBMC    `json:"bmc"`
	TimeoutMs int       `json:"timeout_ms"`
	BackoffMs int       `json:"backoff_ms"` // >0: constant back-off of this many ms instead of none
	UDP       bool      `json:"udp"`        // run over the library's real UDP transport (loopback bridge)
	BackoffMaxRetries int `json:"backoff_max_retries"` // >0: the back-off policy gives up after this many retries (backoff.WithMaxRetries)
	Steps     []scnStep `json:"steps"`
	Fresh     bool      `json:"fresh"` // new connection (and BMC) for every step
}

type bmcEvent struct {
	Kind     string `json:"kind"`
	Accepted bool   `json:"accepted"`
	Reject   string `json:"reject,omitempty"`
	SID      uint32 `json:"sid"`
	Seq      uint32 `json:"seq"`
	PType    uint8  `json:"ptype"`
	Auth     bool   `json:"auth"`
	Enc      bool   `json:"enc"`
	InOrder  bool   `json:"inorder"`
	IV       string `json:"iv,omitempty"`
	NetFn    uint8  `json:"netfn"`
	Cmd      uint8  `json:"cmd"`
	LUN      uint8  `json:"lun"`
	RqAddr   uint8  `json:"rqaddr"`
	RsAddr   uint8  `json:"rsaddr"`
	RqSeq    uint8  `json:"rqseq"`
	Body     uint8  `json:"body"`
	Data     string `json:"data"`
	Payload  string `json:"payload"`
	CC       uint8  `json:"cc"`
	RspData  string `json:"rspdata"`
}

type stepResult struct {
	Op        string             `json:"op"`
	Err       string             `json:"err"`  // "nil", a known sentinel name, "deadline", "other"
	ErrText   string             `json:"errtext,omitempty"`
	Code      int                `json:"code"` // completion code returned by SendCommand
	Rsp       string             `json:"rsp"`  // flattened response layer, "" if none
	Value     string             `json:"value,omitempty"`
	Sent      []string           `json:"sent"`
	Delivered []string           `json:"delivered"` // "" = nothing delivered (lost)
	Actions   []string           `json:"actions"`
	BMC       []bmcEvent         `json:"bmc"`
	Metrics   map[string]float64 `json:"metrics"`
	Session   map[string]string  `json:"session,omitempty"`
	Panic     string             `json:"panic,omitempty"`
	Runaway   bool               `json:"runaway,omitempty"` // the step was cut off after maxTransmissions datagrams
	ElapsedMs float64            `json:"elapsed_ms"`
}

// ---- transport with scripted faults ----

type simTransport struct {
	b       *sim.BMC
	script  []string
	events  []scnEvent
	n       int // transmissions in the current step
	sent    []string
	deliv   []string
	actions []string
	prev    []byte // last genuine reply of an earlier transmission
	queue   [][]byte
	rng     *rand.Rand
	recvBuf [512]byte
	closed  bool
	closeErr error
	logFrom int
	prevStep []byte            // the last genuine reply of the previous step
	stepCtx context.Context    // the caller's context of the current step
	cancel  context.CancelFunc // ends the step when it transmits without bound
	runaway bool
	limit   int        // transmissions after which the step is cut off as a runaway
	extra   []byte     // UDP mode: a datagram the bridge sends right behind the reply
	udp     bool       // driven by the UDP bridge: never blocks, a missing reply is simply not sent
	mu      sync.Mutex // UDP mode: the bridge goroutine and the step runner
}

// udpBridge puts the scripted fault injector and the simulated BMC behind a real UDP socket on loopback, so that
// the library's own transport (sockets, deadlines, receive buffer) is part of the run.
type udpBridge struct {
	conn *net.UDPConn
	t    *simTransport
}

func startBridge(t *simTransport) (*udpBridge, error) {
	c, err := net.ListenUDP("udp4", &net.UDPAddr{IP: net.IPv4(127, 0, 0, 1)})
	if err != nil {
		return nil, err
	}
	br := &udpBridge{conn: c, t: t}
	t.udp = true
	go func() {
		buf := make([]byte, 4096)
		for {
			n, addr, err := c.ReadFromUDP(buf)
			if err != nil {
				return
			}
			t.mu.Lock()
			reply, e := t.Send(context.Background(), buf[:n])
			var out []byte
			if e == nil {
				out = append([]byte{}, reply...)
			}
			extra := t.extra
			t.extra = nil
			t.mu.Unlock()
			if e == nil {
				c.WriteToUDP(out, addr)
			}
			if extra != nil {
				// a stray datagram right behind the reply (okstray)
				c.WriteToUDP(extra, addr)
			}
		}
	}()
	return br, nil
}

// maxTransmissions bounds one step: a correct library never needs more in these scenarios; a retry loop
// that spins (zero back-off) is cut off and reported instead of filling the memory.
const maxTransmissions = 300

func (t *simTransport) Address() net.Addr { return &net.UDPAddr{IP: net.IPv4(127, 0, 0, 1), Port: 623} }
func (t *simTransport) Close() error      { t.closed = true; return t.closeErr }

var errLost = errors.New("i/o timeout (simulated lost reply)")

func (t *simTransport) Send(ctx context.Context, d []byte) ([]byte, error) {
	// the per-attempt timeout is not consulted on entry: whether the goroutine was descheduled between creating the
	// attempt context and sending is scheduling, not library logic, and must not decide the outcome of a scripted
	// history (only the "silence" action waits for the attempt's deadline).  When the caller's context ends just as an attempt hands its datagram over (a race no script can place), the
	// datagram still counts as transmitted - a socket whose caller was cancelled writes it all the same - and only the
	// reply is never waited for: every sequence number the library used up belongs to a datagram the BMC saw
	var over error
	if t.stepCtx != nil && !t.udp {
		over = t.stepCtx.Err()
	}
	if t.n >= t.limit {
		t.runaway = true
		if t.cancel != nil {
			t.cancel()
		}
		return nil, context.Canceled
	}
	for _, e := range t.events {
		if e.Before == t.n {
			switch e.Kind {
			case "modify_sdr":
				t.b.ModifySDRs(toSDRs(e.SDRs), e.Add, e.Erase)
			case "cancel_reservation":
				t.b.ModifySDRs(t.b.SDRs, t.b.AdditionTS, t.b.EraseTS)
			}
		}
	}
	action := "ok"
	if t.n < len(t.script) {
		action = t.script[t.n]
	}
	t.n++
	t.sent = append(t.sent, hex.EncodeToString(d))
	t.actions = append(t.actions, action)
	cp := make([]byte, len(d))
	copy(cp, d)

	var reply []byte
	// "A|B|C": action A decides the reply, B and C are applied to its bytes afterwards (setbytes, flip, trunc, extend)
	var post []string
	if parts := strings.Split(action, "|"); len(parts) > 1 {
		action, post = parts[0], parts[1:]
	}
	name, arg := action, ""
	if i := strings.IndexByte(action, ':'); i >= 0 {
		name, arg = action[:i], action[i+1:]
	}
	switch name {
	case "ccnobody":
		// a refusal cut short right after the completion code: a group-extension response WITHOUT its body code
		// (some BMCs do this; DCMI 1.5 6.x requires the body code in every response)
		t.b.BareCC = uint8(atoi(arg))
		reply = t.b.Handle(cp)
		t.b.BareCC = 0
	case "busy", "c3", "cc", "truncbody", "emptybody":
		t.b.Intercept = func(key sim.CmdKey, s *sim.Session, lun uint8, data []byte) (bool, uint8, []byte) {
			switch name {
			case "busy":
				return true, 0xC0, nil
			case "c3":
				return true, 0xC3, nil
			case "cc":
				return true, uint8(atoi(arg)), nil
			case "emptybody":
				return true, 0, nil
			default:
				return true, 0, []byte{0x01}
			}
		}
		reply = t.b.Handle(cp)
		t.b.Intercept = nil
	case "ccfull":
		// the genuine response data under completion code <arg>
		t.b.ForceCC = uint8(atoi(arg))
		reply = t.b.Handle(cp)
		t.b.ForceCC = 0
	default:
		reply = t.b.Handle(cp)
	}
	genuine := reply
	if over != nil {
		if genuine != nil {
			t.prev = genuine
		}
		t.deliv = append(t.deliv, "")
		return nil, over
	}
	switch name {
	case "lost":
		reply = nil
	case "silence":
		// nothing arrives: the read blocks until the attempt's own deadline, as on a real socket
		t.deliv = append(t.deliv, "")
		if t.udp {
			return nil, errLost
		}
		<-ctx.Done()
		return nil, ctx.Err()
	case "slow":
		// the genuine reply, late by <arg> ms (a slow BMC or network): still inside the attempt's window if <arg> is
		if t.udp {
			time.Sleep(time.Duration(atoi(arg)) * time.Millisecond)
		} else {
			select {
			case <-time.After(time.Duration(atoi(arg)) * time.Millisecond):
			case <-ctx.Done():
				t.deliv = append(t.deliv, "")
				return nil, ctx.Err()
			}
		}
	case "garbage":
		n := 1 + t.rng.Intn(60)
		reply = make([]byte, n)
		t.rng.Read(reply)
	case "trunc":
		if reply != nil {
			k := atoi(arg)
			if k < len(reply) {
				reply = reply[:k]
			}
		}
	case "cuttail":
		// the datagram arrives k bytes short (its tail lost): what lies behind it in the receiver's buffer is not part of it
		if reply != nil {
			if k := atoi(arg); k < len(reply) {
				reply = reply[:len(reply)-k]
			}
		}
	case "truncpayload":
		if reply != nil && len(reply) >= 16 {
			k := atoi(arg)
			if 16+k < len(reply) {
				reply = append([]byte{}, reply[:16+k]...)
				reply[14], reply[15] = byte(k), byte(k>>8)
			}
		}
	case "extend":
		// the genuine reply with surplus bytes behind it (a trailer longer than the AuthCode)
		if reply != nil {
			reply = append(append([]byte{}, reply...), bytes.Repeat([]byte{0x5c}, atoi(arg))...)
		}
	case "cutsig":
		// the genuine reply with its last bytes missing (an AuthCode that is too short, or absent)
		if reply != nil && len(reply) > atoi(arg) {
			reply = append([]byte{}, reply[:len(reply)-atoi(arg)]...)
		}
	case "badsig":
		if len(reply) > 0 {
			reply = append([]byte{}, reply...)
			reply[len(reply)-1] ^= 0x01
		}
	case "flip":
		if reply != nil {
			k := atoi(arg)
			if k/8 < len(reply) {
				reply = append([]byte{}, reply...)
				reply[k/8] ^= 1 << uint(k%8)
			}
		}
	case "raw":
		reply = unhex(arg)
	case "setbytes":
		// overwrite bytes of the genuine reply: off=val;off=val
		if reply != nil {
			reply = append([]byte{}, reply...)
			for _, kv := range strings.Split(arg, ";") {
				var off, val int
				fmt.Sscanf(kv, "%d=%d", &off, &val)
				if off < len(reply) {
					reply[off] = byte(val)
				}
			}
		}
	case "forge":
		// replace the genuine reply by a forged one for the same request
		ss := t.b.Sessions()
		ev := &t.b.Log[len(t.b.Log)-1]
		if len(ss) > 0 && ev.Kind == "ipmi-session" {
			reply = forge(arg, ev, ss[len(ss)-1], t.rng)
		}
	case "okstray":
		// the genuine reply, and hard on its heels a duplicate of the previous command's reply (real sockets only)
		if t.udp && t.prevStep != nil {
			t.extra = append([]byte{}, t.prevStep...)
		}
	case "dupprev":
		// a stale duplicate of an earlier reply arrives instead of this one
		if t.prev != nil {
			reply = t.prev
		}
	case "dupstep":
		// a stale duplicate of the last reply of the PREVIOUS command arrives instead of this one
		if t.prevStep != nil {
			reply = t.prevStep
		}
	case "delay":
		// replies arrive one exchange late: deliver the queued one, queue this one
		t.queue = append(t.queue, genuine)
		if len(t.queue) > 1 {
			reply = t.queue[0]
			t.queue = t.queue[1:]
		} else {
			reply = nil
		}
	case "flush":
		// the delayed reply arrives first, then the genuine one is queued behind it
		if len(t.queue) > 0 {
			reply = t.queue[0]
			t.queue = append(t.queue[1:], genuine)
		}
	}
	if genuine != nil && name != "dupprev" && name != "dupstep" {
		t.prev = genuine
	}
	for _, pa := range post {
		pn, parg := pa, ""
		if i := strings.IndexByte(pa, ':'); i >= 0 {
			pn, parg = pa[:i], pa[i+1:]
		}
		if reply == nil {
			break
		}
		reply = append([]byte{}, reply...)
		switch pn {
		case "setbytes":
			for _, kv := range strings.Split(parg, ";") {
				var off, val int
				fmt.Sscanf(kv, "%d=%d", &off, &val)
				if off < len(reply) {
					reply[off] = byte(val)
				}
			}
		case "flip":
			if k := atoi(parg); k/8 < len(reply) {
				reply[k/8] ^= 1 << uint(k%8)
			}
		case "trunc":
			if k := atoi(parg); k < len(reply) {
				reply = reply[:k]
			}
		case "extend":
			reply = append(reply, bytes.Repeat([]byte{0x5c}, atoi(parg))...)
		default:
			panic("unknown post-action " + pn)
		}
	}
	if reply == nil {
		t.deliv = append(t.deliv, "")
		return nil, errLost
	}
	if len(reply) > len(t.recvBuf) {
		reply = reply[:len(t.recvBuf)]
	}
	if len(reply) == 0 {
		t.deliv = append(t.deliv, "e") // an empty datagram (distinct from a lost one)
	} else {
		t.deliv = append(t.deliv, hex.EncodeToString(reply))
	}
	// like the real transport: a window into a reused receive buffer
	for i := range t.recvBuf {
		t.recvBuf[i] = 0xEE
	}
	n := copy(t.recvBuf[:], reply)
	return t.recvBuf[:n], nil
}

func toSDRs(in []scnSDR) []sim.SDRRecord {
	out := make([]sim.SDRRecord, len(in))
	for i, r := range in {
		out[i] = sim.SDRRecord{ID: r.ID, Data: unhex(r.Data)}
	}
	return out
}

func newSimBMC(c scnBMC) *sim.BMC {
	cfg := sim.Config{Seed: c.Seed}
	for _, u := range c.Users {
		cfg.Users = append(cfg.Users, sim.User{Name: u.Name, Password: unhexOrEmpty(u.Password), MaxPriv: u.MaxPriv})
	}
	cfg.KG = unhexOrEmpty(c.KG)
	copy(cfg.GUID[:], unhexOrEmpty(c.GUID))
	for _, s := range c.Suites {
		su := sim.Suite{ID: uint8(s[0]), Auth: uint8(s[1]), Integ: uint8(s[2]), Conf: uint8(s[3])}
		if len(s) > 4 {
			su.OEMIANA = uint32(s[4])
		}
		cfg.Suites = append(cfg.Suites, su)
	}
	if c.Records != nil {
		cfg.CipherSuiteRecords = unhexOrEmpty(*c.Records)
		if cfg.CipherSuiteRecords == nil {
			cfg.CipherSuiteRecords = []byte{}
		}
	}
	b := sim.New(cfg)
	if c.SDRs != nil {
		b.SDRs = toSDRs(c.SDRs)
	}
	if c.Sensors != nil {
		b.Sensors = map[uint8][]byte{}
		for k, v := range c.Sensors {
			b.Sensors[uint8(atoi(k))] = unhexOrEmpty(v)
		}
	}
	if c.DCMISensors != nil {
		b.DCMISensors = map[uint8][]uint16{}
		for k, v := range c.DCMISensors {
			b.DCMISensors[uint8(atoi(k))] = v
		}
	}
	if c.DCMICaps != nil {
		b.DCMICaps = map[uint8][]byte{}
		for k, v := range c.DCMICaps {
			b.DCMICaps[uint8(atoi(k))] = unhexOrEmpty(v)
		}
	}
	if c.PageSize > 0 {
		b.DCMIPageSize = c.PageSize
	}
	b.DCMIOvercount = c.Overcount
	if c.OverridePassword != nil {
		b.OverridePassword = unhexOrEmpty(*c.OverridePassword)
		if b.OverridePassword == nil {
			b.OverridePassword = []byte{}
		}
	}
	if c.OverrideKG != nil {
		b.OverrideKG = unhexOrEmpty(*c.OverrideKG)
		if b.OverrideKG == nil {
			b.OverrideKG = []byte{}
		}
	}
	if c.DeviceID != "" {
		b.DeviceID = unhex(c.DeviceID)
	}
	if c.Chassis != "" {
		b.ChassisStatus = unhex(c.Chassis)
	}
	if c.PowerReading != "" {
		b.PowerReading = unhex(c.PowerReading)
	}
	if c.Addition != 0 || c.Erase != 0 {
		b.AdditionTS, b.EraseTS = c.Addition, c.Erase
	}
	b.NextSessionID = c.FirstSessionID
	if c.LooseSeq {
		// every command may be issued outside a session
		for _, k := range []sim.CmdKey{{0, 1, 0}, {0, 2, 0}, {6, 1, 0}, {6, 0x37, 0}, {6, 0x38, 0}, {6, 0x3b, 0}, {6, 0x3c, 0},
			{6, 0x3d, 0}, {6, 0x54, 0}, {0x0a, 0x20, 0}, {0x0a, 0x22, 0}, {0x0a, 0x23, 0}, {4, 0x2d, 0},
			{0x2c, 1, 0xdc}, {0x2c, 2, 0xdc}, {0x2c, 7, 0xdc}} {
			b.Sessionless[k] = true
		}
	}
	return b
}

func unhexOrEmpty(s string) []byte {
	if s == "" || s == "-" {
		return nil
	}
	return unhex(s)
}

// ---- commands ----

type rawCmd struct {
	op   ipmi.Operation
	lun  ipmi.LUN
	body []byte
	rsp  gopacket.Payload
}

func (c *rawCmd) Name() string                        { return "Raw" }
func (c *rawCmd) Operation() *ipmi.Operation          { return &c.op }
func (c *rawCmd) RemoteLUN() ipmi.LUN                 { return c.lun }
func (c *rawCmd) Request() gopacket.SerializableLayer { return gopacket.Payload(c.body) }
func (c *rawCmd) Response() gopacket.DecodingLayer    { return &c.rsp }

func p(c scnCmd, i int) int64 {
	if i < len(c.P) {
		return c.P[i]
	}
	return 0
}

// buildCmd returns the command and a function giving its decoded response layer.
func buildCmd(c scnCmd) (ipmi.Command, func() decLayer) {
	switch c.Name {
	case "getdeviceid":
		x := &ipmi.GetDeviceIDCmd{}
		return x, func() decLayer { return &x.Rsp }
	case "getchassisstatus":
		x := &ipmi.GetChassisStatusCmd{}
		return x, func() decLayer { return &x.Rsp }
	case "getsystemguid":
		x := &ipmi.GetSystemGUIDCmd{}
		return x, func() decLayer { return &x.Rsp }
	case "authcaps":
		x := &ipmi.GetChannelAuthenticationCapabilitiesCmd{Req: ipmi.GetChannelAuthenticationCapabilitiesReq{
			ExtendedData: p(c, 0) != 0, Channel: ipmi.Channel(p(c, 1)), MaxPrivilegeLevel: ipmi.PrivilegeLevel(p(c, 2))}}
		return x, func() decLayer { return &x.Rsp }
	case "ciphersuites":
		x := &ipmi.GetChannelCipherSuitesCmd{Req: ipmi.GetChannelCipherSuitesReq{
			Channel: ipmi.Channel(p(c, 0)), PayloadType: ipmi.PayloadType(p(c, 1)), ListIndex: uint8(p(c, 2))}}
		return x, func() decLayer { return &x.Rsp }
	case "sessioninfo":
		x := &ipmi.GetSessionInfoCmd{Req: ipmi.GetSessionInfoReq{
			Index: ipmi.SessionIndex(p(c, 0)), Handle: ipmi.SessionHandle(p(c, 1)), ID: uint32(p(c, 2))}}
		return x, func() decLayer { return &x.Rsp }
	case "setpriv":
		x := &ipmi.SetSessionPrivilegeLevelCmd{Req: ipmi.SetSessionPrivilegeLevelReq{PrivilegeLevel: ipmi.PrivilegeLevel(p(c, 0))}}
		return x, func() decLayer { return &x.Rsp }
	case "closesession":
		x := &ipmi.CloseSessionCmd{Req: ipmi.CloseSessionReq{ID: uint32(p(c, 0)), Handle: ipmi.SessionHandle(p(c, 1))}}
		return x, nil
	case "chassiscontrol":
		x := &ipmi.ChassisControlCmd{Req: ipmi.ChassisControlReq{ChassisControl: ipmi.ChassisControl(p(c, 0))}}
		return x, nil
	case "getsdrrepoinfo":
		x := &ipmi.GetSDRRepositoryInfoCmd{}
		return x, func() decLayer { return &x.Rsp }
	case "reservesdr":
		x := &ipmi.ReserveSDRRepositoryCmd{}
		return x, func() decLayer { return &x.Rsp }
	case "getsdr":
		x := &ipmi.GetSDRCmd{Req: ipmi.GetSDRReq{ReservationID: ipmi.ReservationID(p(c, 0)), RecordID: ipmi.RecordID(p(c, 1)),
			Offset: uint8(p(c, 2)), Length: uint8(p(c, 3))}}
		return x, func() decLayer { return &x.Rsp }
	case "sensorreading":
		x := &ipmi.GetSensorReadingCmd{Req: ipmi.GetSensorReadingReq{Number: uint8(p(c, 0))}, OwnerLUN: ipmi.LUN(p(c, 1))}
		return x, func() decLayer { return &x.Rsp }
	case "dcmicaps":
		switch p(c, 0) {
		case 1:
			x := dcmi.NewGetDCMICapabilitiesInfoSupportedCapabilitiesCmd()
			return x, func() decLayer { return &x.Rsp }
		case 2:
			x := dcmi.NewGetDCMICapabilitiesInfoMandatoryPlatformAttrsCmd()
			return x, func() decLayer { return &x.Rsp }
		case 3:
			x := dcmi.NewGetDCMICapabilitiesInfoOptionalPlatformAttrsCmd()
			return x, func() decLayer { return &x.Rsp }
		case 4:
			x := dcmi.NewGetDCMICapabilitiesInfoManageabilityAccessAttrsCmd()
			return x, func() decLayer { return &x.Rsp }
		default:
			x := dcmi.NewGetDCMICapabilitiesInfoEnhancedSystemPowerStatisticsAttrsCmd()
			return x, func() decLayer { return &x.Rsp }
		}
	case "powerreading":
		x := &dcmi.GetPowerReadingCmd{Req: dcmi.GetPowerReadingReq{Mode: dcmi.SystemPowerStatisticsMode(p(c, 0)),
			Period: time.Duration(p(c, 1)) * time.Second}}
		return x, func() decLayer { return &x.Rsp }
	case "dcmisensorinfo":
		x := &dcmi.GetDCMISensorInfoCmd{Req: dcmi.GetDCMISensorInfoReq{Type: ipmi.SensorType(p(c, 0)), Entity: ipmi.EntityID(p(c, 1)),
			Instance: ipmi.EntityInstance(p(c, 2)), InstanceStart: uint8(p(c, 3))}}
		return x, func() decLayer { return &x.Rsp }
	case "raw":
		x := &rawCmd{op: ipmi.Operation{Function: ipmi.NetworkFunction(p(c, 0)), Command: ipmi.CommandNumber(p(c, 1)),
			Body: ipmi.BodyCode(p(c, 3))}, lun: ipmi.LUN(p(c, 2)), body: unhexOrEmpty(c.Hex)}
		return x, nil
	}
	panic("unknown command " + c.Name)
}

var payloadLayers = map[string]bool{}

func showRsp(l decLayer) string {
	// same flattening as the layer-level "dec" command, payload only for layers that assign it
	for name, spec := range layerSpecs {
		if name == "v2session" || name == "aes" {
			continue
		}
		proto := spec.mk(nil)
		if fmt.Sprintf("%T", proto) == fmt.Sprintf("%T", l) {
			return showLayer(l, spec.payload)
		}
	}
	return showLayer(l, false)
}

// ---- metrics ----

func gatherMetrics() map[string]float64 {
	out := map[string]float64{}
	mfs, err := prometheus.DefaultGatherer.Gather()
	if err != nil {
		return out
	}
	for _, mf := range mfs {
		if !strings.HasPrefix(mf.GetName(), "bmc_") {
			continue
		}
		for _, m := range mf.GetMetric() {
			var lbl []string
			for _, l := range m.GetLabel() {
				lbl = append(lbl, l.GetName()+"="+l.GetValue())
			}
			sort.Strings(lbl)
			key := mf.GetName()
			if len(lbl) > 0 {
				key += "{" + strings.Join(lbl, ",") + "}"
			}
			switch mf.GetType() {
			case dto.MetricType_COUNTER:
				out[key] = m.GetCounter().GetValue()
			case dto.MetricType_GAUGE:
				out[key] = m.GetGauge().GetValue()
			case dto.MetricType_HISTOGRAM:
				out[key+"_count"] = float64(m.GetHistogram().GetSampleCount())
			}
		}
	}
	return out
}

func metricsDelta(before, after map[string]float64) map[string]float64 {
	d := map[string]float64{}
	for k, v := range after {
		if dv := v - before[k]; dv != 0 {
			d[k] = dv
		}
	}
	return d
}

func classifyErr(err error) string {
	switch {
	case err == nil:
		return "nil"
	case errors.Is(err, bmc.ErrIncorrectPassword):
		return "ErrIncorrectPassword"
	case errors.Is(err, bmc.ErrNoSupportedCipherSuite):
		return "ErrNoSupportedCipherSuite"
	case errors.Is(err, bmc.ErrSensorReadingUnavailable):
		return "ErrSensorReadingUnavailable"
	case errors.Is(err, bmc.ErrSensorScanningDisabled):
		return "ErrSensorScanningDisabled"
	case errors.Is(err, context.DeadlineExceeded), errors.Is(err, context.Canceled):
		return "deadline"
	case errors.Is(err, errLost):
		return "lost"
	}
	return "other"
}

// zeroBackOff never sleeps; the script bounds the number of attempts.
type zeroBackOff struct{}

func (zeroBackOff) NextBackOff() time.Duration { return 0 }
func (zeroBackOff) Reset()                     {}

var dialed []*bmc.V2SessionlessTransport

// sharedPrefs is a preference list as a program would keep it: one slice, handed to every NewV2Session of every goroutine.
// Its first entry is a suite none of the simulated BMCs offers, so discovery has something to skip.
var sharedPrefs = []ipmi.CipherSuite{
	{AuthenticationAlgorithm: ipmi.AuthenticationAlgorithmHMACMD5, IntegrityAlgorithm: ipmi.IntegrityAlgorithmHMACSHA256128, ConfidentialityAlgorithm: ipmi.ConfidentialityAlgorithmAESCBC128},
	ipmi.CipherSuite17, ipmi.CipherSuite3,
}

type scnState struct {
	b      *sim.BMC
	t      *simTransport
	conn   *bmc.V2SessionlessTransport
	sess   *bmc.V2Session
	opts   *bmc.V2SessionOpts // the caller's options value, kept across opens that say reuse_opts
	bridge *udpBridge
	last   map[string]builtCmd // the command value last sent under each command name (for "reuse")
	kept   []context.CancelFunc
}

type builtCmd struct {
	cmd ipmi.Command
	rsp func() decLayer
}

func (st *scnState) close() {
	for _, c := range st.kept {
		c()
	}
	st.kept = nil
	if st.bridge != nil {
		st.conn.Close()
		st.bridge.conn.Close()
	}
}

func newState(sc *scenario) *scnState {
	b := newSimBMC(sc.BMC)
	t := &simTransport{b: b, rng: rand.New(rand.NewSource(sc.BMC.Seed + 7))}
	to := time.Duration(sc.TimeoutMs) * time.Millisecond
	if to == 0 {
		to = 200 * time.Millisecond
	}
	var bo backoff.BackOff = zeroBackOff{}
	if sc.BackoffMs > 0 {
		bo = backoff.NewConstantBackOff(time.Duration(sc.BackoffMs) * time.Millisecond)
	}
	if sc.BackoffMaxRetries > 0 {
		bo = backoff.WithMaxRetries(bo, uint64(sc.BackoffMaxRetries))
	}
	if sc.UDP {
		br, err := startBridge(t)
		if err != nil {
			panic("udp bridge: " + err.Error())
		}
		conn, err := bmc.DialV2ForVerif(br.conn.LocalAddr().String(), to, bo)
		if err != nil {
			panic("dial bridge: " + err.Error())
		}
		return &scnState{b: b, t: t, conn: conn, bridge: br}
	}
	conn := bmc.NewV2SessionlessTransportForVerif(t, to, bo)
	return &scnState{b: b, t: t, conn: conn}
}

func suitesOf(in [][]int) []ipmi.CipherSuite {
	var out []ipmi.CipherSuite
	for _, s := range in {
		out = append(out, ipmi.CipherSuite{
			AuthenticationAlgorithm:  ipmi.AuthenticationAlgorithm(s[0]),
			IntegrityAlgorithm:       ipmi.IntegrityAlgorithm(s[1]),
			ConfidentialityAlgorithm: ipmi.ConfidentialityAlgorithm(s[2]),
		})
	}
	return out
}

func runStepNoMetrics(st *scnState, step *scnStep) stepResult { return runStepM(st, step, false) }

func runStep(st *scnState, step *scnStep) stepResult { return runStepM(st, step, true) }

func runStepM(st *scnState, step *scnStep, withMetrics bool) (res stepResult) {
	res.Op = step.Op
	t := st.t
	t.mu.Lock()
	t.script, t.events, t.n = step.Script, step.Events, 0
	t.limit = maxTransmissions
	if step.Op == "dcmisensorinfo" || step.Op == "sdr" {
		// procedures that legitimately send hundreds of requests (up to 256 pages per entity, C16_page_loop_at_most_256_requests)
		t.limit = 2500
	}
	t.prevStep = t.prev
	t.sent, t.deliv, t.actions = nil, nil, nil
	logFrom := len(st.b.Log)
	t.mu.Unlock()
	var before map[string]float64
	if withMetrics {
		before = gatherMetrics()
	}
	ctxMs := step.CtxMs
	if ctxMs == 0 {
		ctxMs = 10000 // no scenario relies on this expiring; on a busy machine 5 s has been seen to pass
	}
	ctx, cancel := context.WithTimeout(context.Background(), time.Duration(ctxMs)*time.Millisecond)
	if step.CancelMs > 0 {
		// a context without deadline, cancelled from outside (the caller gives up)
		cancel()
		ctx, cancel = context.WithCancel(context.Background())
		tm := time.AfterFunc(time.Duration(step.CancelMs)*time.Millisecond, cancel)
		defer tm.Stop()
	}
	if step.KeepCtx {
		st.kept = append(st.kept, cancel)
	} else {
		defer cancel()
	}
	t.mu.Lock()
	t.cancel, t.runaway = cancel, false
	t.stepCtx = ctx
	t.mu.Unlock()
	start := time.Now()
	func() {
		defer func() {
			if r := recover(); r != nil {
				res.Panic = fmt.Sprint(r)
				res.Err = "panic"
			}
		}()
		var connection bmc.Connection = st.conn
		var session bmc.Session
		if step.Conn == "session" {
			if st.sess == nil {
				res.Err = "nosession"
				return
			}
			connection = st.sess
			session = st.sess
		}
		switch step.Op {
		case "cmd":
			cmd, rsp := buildCmd(step.Cmd)
			if prev, ok := st.last[step.Cmd.Name]; ok && step.Reuse {
				cmd, rsp = prev.cmd, prev.rsp
			}
			if st.last == nil {
				st.last = map[string]builtCmd{}
			}
			st.last[step.Cmd.Name] = builtCmd{cmd, rsp}
			code, err := connection.SendCommand(ctx, cmd)
			res.Code = int(code)
			res.Err = classifyErr(err)
			if err != nil {
				res.ErrText = err.Error()
			}
			if err == nil && rsp != nil {
				res.Rsp = showRsp(rsp())
			}
			if rc, ok := cmd.(*rawCmd); ok && err == nil {
				res.Rsp = "raw " + hex.EncodeToString(rc.rsp)
			}
		case "open":
			opts := &bmc.V2SessionOpts{
				SessionOpts: bmc.SessionOpts{
					Username:          step.User,
					Password:          unhexOrEmpty(step.Password),
					MaxPrivilegeLevel: ipmi.PrivilegeLevel(step.Priv),
				},
				PrivilegeLevelLookup: step.Lookup,
				KG:                   unhexOrEmpty(step.KG),
				CipherSuites:         suitesOf(step.Suites),
			}
			if step.KGEmpty {
				opts.KG = []byte{}
			}
			if step.SharedPrefs {
				opts.CipherSuites = sharedPrefs
			}
			if step.ReuseOpts {
				if st.opts != nil {
					// the same options value as last time; the caller assigns what it uses and leaves the rest as IT left it
					o := st.opts
					o.Username, o.Password, o.MaxPrivilegeLevel = opts.Username, opts.Password, opts.MaxPrivilegeLevel
					o.PrivilegeLevelLookup, o.CipherSuites = opts.PrivilegeLevelLookup, opts.CipherSuites
					if step.KG != "" {
						o.KG = opts.KG
					}
					opts = o
				}
				st.opts = opts
			}
			var sess *bmc.V2Session
			var err error
			if step.ViaNewSession {
				// the interface entry point: default suites, no KG, privilege lookup off
				var s bmc.Session
				s, err = st.conn.NewSession(ctx, &opts.SessionOpts)
				if err == nil {
					sess = s.(*bmc.V2Session)
				}
			} else {
				sess, err = st.conn.NewV2Session(ctx, opts)
			}
			res.Err = classifyErr(err)
			if err != nil {
				res.ErrText = err.Error()
			} else {
				st.sess = sess
				res.Session = map[string]string{
					"sik":     hex.EncodeToString(sess.SIK),
					"k1":      hex.EncodeToString(sess.K(1)),
					"k2":      hex.EncodeToString(sess.K(2)),
					"localid": fmt.Sprint(sess.LocalID), "remoteid": fmt.Sprint(sess.RemoteID),
					"auth": fmt.Sprint(uint8(sess.AuthenticationAlgorithm)), "integ": fmt.Sprint(uint8(sess.IntegrityAlgorithm)),
					"conf": fmt.Sprint(uint8(sess.ConfidentialityAlgorithm)),
				}
			}
		case "close":
			if st.sess == nil {
				res.Err = "nosession"
				return
			}
			err := st.sess.Close(ctx)
			res.Err = classifyErr(err)
			if err != nil {
				res.ErrText = err.Error()
			}
			st.sess = nil
		case "bmcset":
			// reconfigure the simulated BMC between steps
			if step.BMCSet.DCMISensors != nil {
				st.b.DCMISensors = map[uint8][]uint16{}
				for k, v := range step.BMCSet.DCMISensors {
					st.b.DCMISensors[uint8(atoi(k))] = v
				}
			}
			if step.BMCSet.Suites != nil {
				var ss []sim.Suite
				for _, s := range step.BMCSet.Suites {
					ss = append(ss, sim.Suite{ID: uint8(s[0]), Auth: uint8(s[1]), Integ: uint8(s[2]), Conf: uint8(s[3])})
				}
				st.b.SetSuites(ss)
			}
			if step.BMCSet.PageSize > 0 {
				st.b.DCMIPageSize = step.BMCSet.PageSize
			}
			if step.BMCSet.Sensors != nil {
				st.b.Sensors = map[uint8][]byte{}
				for k, v := range step.BMCSet.Sensors {
					st.b.Sensors[uint8(atoi(k))] = unhexOrEmpty(v)
				}
			}
			if step.BMCSet.SDRs != nil {
				st.b.ModifySDRs(toSDRs(step.BMCSet.SDRs), step.BMCSet.Addition, step.BMCSet.Erase)
			}
			res.Err = "nil"
		case "dial":
			// a real UDP socket through DialV2 (connection metrics); Cmd.Hex is the address
			c, err := bmc.DialV2(step.Cmd.Hex, bmc.WithTimeout(50*time.Millisecond))
			res.Err = classifyErr(err)
			if err == nil {
				dialed = append(dialed, c)
			}
		case "closedial":
			if len(dialed) == 0 {
				res.Err = "nosession"
				return
			}
			c := dialed[len(dialed)-1]
			dialed = dialed[:len(dialed)-1]
			if len(step.Script) > 0 && step.Script[0] == "fail" {
				c.Transport.Close() // the second close of the socket fails
			}
			res.Err = classifyErr(c.Close())
		case "closeconn":
			if len(step.Script) > 0 && step.Script[0] == "fail" {
				t.closeErr = errors.New("simulated close failure")
			} else {
				t.closeErr = nil
			}
			err := st.conn.Close()
			res.Err = classifyErr(err)
		case "ciphersuites":
			recs, err := bmc.RetrieveSupportedCipherSuites(ctx, st.conn)
			res.Err = classifyErr(err)
			if err == nil {
				var parts []string
				for _, r := range recs {
					parts = append(parts, fmt.Sprintf("%d:%d:%d:%d:%d", r.CipherSuiteID, r.Enterprise,
						r.AuthenticationAlgorithm, r.IntegrityAlgorithm, r.ConfidentialityAlgorithm))
				}
				res.Value = strings.Join(parts, " ")
			}
		case "sdr":
			repo, err := bmc.RetrieveSDRRepository(ctx, session)
			res.Err = classifyErr(err)
			if err != nil {
				res.ErrText = err.Error()
			} else {
				var ids []int
				for id := range repo {
					ids = append(ids, int(id))
				}
				sort.Ints(ids)
				var parts []string
				for _, id := range ids {
					parts = append(parts, fmt.Sprintf("%d=%s", id, strings.ReplaceAll(showLayer(repo[ipmi.RecordID(id)], false), " ", ",")))
				}
				res.Value = strings.Join(parts, " ")
			}
		case "dcmisensorinfo":
			info, err := dcmi.GetSensorInfo(ctx, session)
			res.Err = classifyErr(err)
			if err == nil {
				res.Value = fmt.Sprintf("inlet=%v cpu=%v baseboard=%v", info.Inlet, info.CPU, info.Baseboard)
			}
		case "wrappers":
			// every typed helper of the connection (and the DCMI commanders over it), one after the other; each entry is
			// name=<the value it returned, flattened like a response layer> or name=err:<class>
			var parts []string
			put := func(name string, l decLayer, err error) {
				if err != nil {
					parts = append(parts, name+"=err:"+classifyErr(err))
				} else if l == nil {
					parts = append(parts, name+"=ok")
				} else {
					parts = append(parts, name+"="+strings.ReplaceAll(showRsp(l), " ", ","))
				}
			}
			type guider interface {
				GetSystemGUID(context.Context) ([16]byte, error)
				GetChannelAuthenticationCapabilities(context.Context, *ipmi.GetChannelAuthenticationCapabilitiesReq) (*ipmi.GetChannelAuthenticationCapabilitiesRsp, error)
			}
			var g guider = st.conn
			if session != nil {
				g = st.sess
			}
			if guid, err := g.GetSystemGUID(ctx); err != nil {
				parts = append(parts, "GetSystemGUID=err:"+classifyErr(err))
			} else {
				parts = append(parts, "GetSystemGUID="+hex.EncodeToString(guid[:]))
			}
			{
				r, err := g.GetChannelAuthenticationCapabilities(ctx, &ipmi.GetChannelAuthenticationCapabilitiesReq{ExtendedData: true, Channel: ipmi.ChannelPresentInterface, MaxPrivilegeLevel: ipmi.PrivilegeLevelAdministrator})
				put("GetChannelAuthenticationCapabilities", r, err)
			}
			var sl bmc.Sessionless = st.conn
			if session != nil {
				sl = st.sess
			}
			dsl := dcmi.NewSessionlessCommander(sl)
			{
				r, err := dsl.GetDCMICapabilitiesInfoSupportedCapabilities(ctx)
				put("DCMISupportedCapabilities", r, err)
			}
			{
				r, err := dsl.GetDCMICapabilitiesInfoMandatoryPlatformAttrs(ctx)
				put("DCMIMandatoryPlatformAttrs", r, err)
			}
			{
				r, err := dsl.GetDCMICapabilitiesInfoOptionalPlatformAttrs(ctx)
				put("DCMIOptionalPlatformAttrs", r, err)
			}
			{
				r, err := dsl.GetDCMICapabilitiesInfoManageabilityAccessAttrs(ctx)
				put("DCMIManageabilityAccessAttrs", r, err)
			}
			{
				r, err := dsl.GetDCMICapabilitiesInfoEnhancedSystemPowerStatisticsAttrs(ctx)
				put("DCMIEnhancedSystemPowerStatisticsAttrs", r, err)
			}
			if session != nil {
				s := st.sess
				{
					r, err := s.GetSessionInfo(ctx, &ipmi.GetSessionInfoReq{Index: ipmi.SessionIndex(0)})
					put("GetSessionInfo", r, err)
				}
				{
					r, err := s.GetDeviceID(ctx)
					put("GetDeviceID", r, err)
				}
				{
					r, err := s.GetChassisStatus(ctx)
					put("GetChassisStatus", r, err)
				}
				{
					r, err := s.GetSDRRepositoryInfo(ctx)
					put("GetSDRRepositoryInfo", r, err)
				}
				{
					r, err := s.ReserveSDRRepository(ctx)
					put("ReserveSDRRepository", r, err)
				}
				{
					r, err := s.GetSensorReading(ctx, uint8(p(step.Cmd, 0)))
					put("GetSensorReading", r, err)
				}
				if lvl, err := s.GetSessionPrivilegeLevel(ctx); err != nil {
					parts = append(parts, "GetSessionPrivilegeLevel=err:"+classifyErr(err))
				} else {
					parts = append(parts, fmt.Sprintf("GetSessionPrivilegeLevel=%d", uint8(lvl)))
				}
				if lvl, err := s.SetSessionPrivilegeLevel(ctx, ipmi.PrivilegeLevelOperator); err != nil {
					parts = append(parts, "SetSessionPrivilegeLevel=err:"+classifyErr(err))
				} else {
					parts = append(parts, fmt.Sprintf("SetSessionPrivilegeLevel=%d", uint8(lvl)))
				}
				put("ChassisControl", nil, s.ChassisControl(ctx, ipmi.ChassisControl(p(step.Cmd, 1))))
				dsc := dcmi.NewSessionCommander(s)
				{
					r, err := dsc.GetPowerReading(ctx, &dcmi.GetPowerReadingReq{Mode: dcmi.SystemPowerStatisticsModeNormal})
					put("DCMIGetPowerReading", r, err)
				}
				{
					r, err := dsc.GetDCMISensorInfo(ctx, &dcmi.GetDCMISensorInfoReq{Type: ipmi.SensorTypeTemperature, Entity: ipmi.EntityID(0x41), InstanceStart: 1})
					put("DCMIGetDCMISensorInfo", r, err)
				}
			}
			res.Err = "nil"
			res.Value = strings.Join(parts, " ")
		case "sensorseq":
			// one reader, polled once per entry of Script (each entry: the Get Sensor Reading response bytes, hex)
			fsr := &ipmi.FullSensorRecord{}
			if err := fsr.DecodeFromBytes(unhex(step.FSR), gopacket.NilDecodeFeedback); err != nil {
				res.Err = "fsrdecode"
				return
			}
			reader, err := bmc.NewSensorReader(fsr)
			if err != nil {
				res.Err = "noreader"
				return
			}
			var parts []string
			polls := step.Script
			t.script = nil
			for _, rd := range polls {
				st.b.Sensors = map[uint8][]byte{fsr.Number: unhex(rd)}
				v, err := reader.Read(ctx, session)
				if err != nil {
					parts = append(parts, classifyErr(err))
				} else {
					parts = append(parts, fmt.Sprintf("%.17g", v))
				}
			}
			res.Err = "nil"
			res.Value = strings.Join(parts, " ")
		case "sensor":
			fsr := &ipmi.FullSensorRecord{}
			if err := fsr.DecodeFromBytes(unhex(step.FSR), gopacket.NilDecodeFeedback); err != nil {
				res.Err = "fsrdecode"
				return
			}
			reader, err := bmc.NewSensorReader(fsr)
			if err != nil {
				res.Err = "noreader"
				return
			}
			// the caller goes on to decode the next record into the same FullSensorRecord value (the reuse idiom the
			// library's layers invite): a reader must keep the factors of the record it was built from
			other := unhex(step.FSR)
			for i := 19; i < 25 && i < len(other); i++ {
				other[i] ^= 0x5A
			}
			_ = fsr.DecodeFromBytes(other, gopacket.NilDecodeFeedback)
			v, err := reader.Read(ctx, session)
			res.Err = classifyErr(err)
			if err == nil {
				res.Value = fmt.Sprintf("%.17g", v)
			}
		default:
			panic("unknown op " + step.Op)
		}
	}()
	res.ElapsedMs = float64(time.Since(start).Microseconds()) / 1000
	if withMetrics {
		res.Metrics = metricsDelta(before, gatherMetrics())
	}
	t.mu.Lock()
	defer t.mu.Unlock()
	res.Sent, res.Delivered, res.Actions = t.sent, t.deliv, t.actions
	res.Runaway = t.runaway
	for _, e := range st.b.Log[logFrom:] {
		res.BMC = append(res.BMC, bmcEvent{Kind: e.Kind, Accepted: e.Accepted, Reject: e.Reject, SID: e.SessionID, Seq: e.Seq,
			PType: e.PayloadType, Auth: e.Authenticated, Enc: e.Encrypted, InOrder: e.InOrder, IV: e.IVHex,
			NetFn: e.Message.NetFn, Cmd: e.Message.Cmd, LUN: e.Message.RsLUN, RqAddr: e.Message.RqAddr, RsAddr: e.Message.RsAddr,
			RqSeq: e.Message.RqSeq, Body: e.Message.Body, Data: hex.EncodeToString(e.Message.Data),
			Payload: hex.EncodeToString(e.Payload), CC: e.CC, RspData: hex.EncodeToString(e.RspData)})
	}
	return res
}

func runScenario(js string) string {
	var sc scenario
	if err := json.Unmarshal([]byte(js), &sc); err != nil {
		panic("bad scenario: " + err.Error())
	}
	st := newState(&sc)
	var out struct {
		Steps    []stepResult      `json:"steps"`
		Sessions []map[string]any `json:"bmc_sessions"`
	}
	for i := range sc.Steps {
		if sc.Fresh && i > 0 {
			st.close()
			st = newState(&sc)
		}
		out.Steps = append(out.Steps, runStep(st, &sc.Steps[i]))
	}
	defer st.close()
	for _, s := range st.b.Sessions() {
		out.Sessions = append(out.Sessions, map[string]any{
			"consoleid": s.ConsoleID, "bmcid": s.BMCID, "auth": s.Auth, "integ": s.Integ, "conf": s.Conf,
			"sik": hex.EncodeToString(s.SIK), "k1": hex.EncodeToString(s.K1), "k2": hex.EncodeToString(s.K2),
			"active": s.Active, "closed": s.Closed, "highest": s.HighestSeq, "rm": hex.EncodeToString(s.Rm[:]),
			"rc": hex.EncodeToString(s.Rc[:]), "role": s.Role, "user": s.User,
		})
	}
	b, err := json.Marshal(out)
	if err != nil {
		panic(err)
	}
	return string(b)
}

func init() {
	register("scn", func(w []string) string {
		return runScenario(strings.Join(w[1:], " "))
	})
}
