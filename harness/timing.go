package main

// C13: blocking calls over real UDP sockets against a fault-injecting server.

import (
	"context"
	"encoding/json"
	"math/rand"
	"net"
	"strings"
	"sync"
	"time"

	"verifharness/sim"

	"github.com/cenkalti/backoff/v4"

	"github.com/gebn/bmc"
	"github.com/gebn/bmc/pkg/ipmi"
)

type c13Req struct {
	Call       string `json:"call"`  // sessionless, open, session, close, sdr
	Fault      string `json:"fault"` // blackhole, slow, garbage, busy, trunc, none
	From       int    `json:"from"`  // the fault applies from this datagram (0-based) of the call under test
	Until      int    `json:"until"` // ... up to but excluding this one (0 = for ever)
	Prior      int    `json:"prior_ms"` // > 0: an earlier successful call on the same connection with this (longer, still live) context
	TimeoutMs  int    `json:"timeout_ms"`
	DeadlineMs int    `json:"deadline_ms"` // <= 0: already expired context
	BackoffMs  int    `json:"backoff_ms"`  // > 0: a constant back-off of this length instead of the library's randomised exponential one (session-less loops)
}

type c13Res struct {
	ElapsedMs float64 `json:"elapsed_ms"`
	JitterMs  float64 `json:"jitter_ms"` // worst lateness of a 5 ms sleep observed beside the call
	Err       string  `json:"err"`
	ErrText   string  `json:"errtext,omitempty"`
	Datagrams int     `json:"datagrams"` // received by the server during the call under test
	Hang      bool    `json:"hang"`
	Setup     string  `json:"setup,omitempty"`
}

type faultServer struct {
	conn    *net.UDPConn
	b       *sim.BMC
	mu      sync.Mutex
	active  bool // the call under test is running
	n       int  // datagrams seen during the call under test
	fault   string
	from    int
	until   int
	timeout time.Duration
	rng     *rand.Rand
}

func (f *faultServer) serve() {
	buf := make([]byte, 2048)
	for {
		n, addr, err := f.conn.ReadFromUDP(buf)
		if err != nil {
			return
		}
		d := append([]byte{}, buf[:n]...)
		f.mu.Lock()
		fault := "none"
		if f.active {
			if f.n >= f.from && (f.until == 0 || f.n < f.until) {
				fault = f.fault
			}
			f.n++
		}
		if fault == "busy" {
			f.b.Intercept = func(sim.CmdKey, *sim.Session, uint8, []byte) (bool, uint8, []byte) { return true, 0xC0, nil }
		}
		reply := f.b.Handle(d)
		f.b.Intercept = nil
		f.mu.Unlock()
		switch fault {
		case "blackhole":
			continue
		case "garbage":
			reply = make([]byte, 1+f.rng.Intn(40))
			f.rng.Read(reply)
		case "trunc":
			if len(reply) > 10 {
				reply = reply[:10]
			}
		case "ackflood":
			// the peer acknowledges with bare 4-byte RMCP ACKs, repeatedly, and never answers
			a := addr
			go func() {
				for i := 0; i < 40; i++ {
					time.Sleep(f.timeout / 3)
					f.conn.WriteToUDP([]byte{0x06, 0x00, 0xff, 0x87}, a)
				}
			}()
			continue
		case "slow":
			if reply != nil {
				r, a := reply, addr
				time.AfterFunc(f.timeout+60*time.Millisecond, func() { f.conn.WriteToUDP(r, a) })
			}
			continue
		}
		if reply != nil {
			f.conn.WriteToUDP(reply, addr)
		}
	}
}

func runC13(js string) string {
	var rq c13Req
	if err := json.Unmarshal([]byte(js), &rq); err != nil {
		panic(err)
	}
	var res c13Res
	cfg := newSimBMC(scnBMC{Users: []scnUser{{Name: "admin", Password: "736563726574", MaxPriv: 4}}, Seed: 3,
		Suites: [][]int{{3, 1, 1, 1}, {17, 3, 4, 1}}, LooseSeq: true})
	// a small SDR repository
	for i := 0; i < 4; i++ {
		body := make([]byte, 44)
		body[42] = 0xC1
		body[43] = 'A'
		body = append(body, 'B')
		body[42] = 0xC2
		rec := append([]byte{byte(i + 1), 0, 0x51, 0x01, byte(len(body))}, body...)
		cfg.SDRs = append(cfg.SDRs, sim.SDRRecord{ID: uint16(i + 1), Data: rec})
	}
	uc, err := net.ListenUDP("udp", &net.UDPAddr{IP: net.IPv4(127, 0, 0, 1)})
	if err != nil {
		res.Setup = err.Error()
		b, _ := json.Marshal(res)
		return string(b)
	}
	defer uc.Close()
	to := time.Duration(rq.TimeoutMs) * time.Millisecond
	fs := &faultServer{conn: uc, b: cfg, fault: rq.Fault, from: rq.From, until: rq.Until, timeout: to, rng: rand.New(rand.NewSource(1))}
	go fs.serve()
	var c *bmc.V2SessionlessTransport
	if rq.BackoffMs > 0 {
		c, err = bmc.DialV2ForVerif(uc.LocalAddr().String(), to, backoff.NewConstantBackOff(time.Duration(rq.BackoffMs)*time.Millisecond))
	} else {
		c, err = bmc.DialV2(uc.LocalAddr().String(), bmc.WithTimeout(to))
	}
	if err != nil {
		res.Setup = err.Error()
		b, _ := json.Marshal(res)
		return string(b)
	}
	defer c.Close()
	setupCtx, cancelSetup := context.WithTimeout(context.Background(), 5*time.Second)
	defer cancelSetup()
	var sess *bmc.V2Session
	if rq.Call == "session" || rq.Call == "close" || rq.Call == "sdr" {
		sess, err = c.NewV2Session(setupCtx, &bmc.V2SessionOpts{SessionOpts: bmc.SessionOpts{Username: "admin", Password: []byte("secret"),
			MaxPrivilegeLevel: ipmi.PrivilegeLevelAdministrator}, PrivilegeLevelLookup: true,
			CipherSuites: []ipmi.CipherSuite{ipmi.CipherSuite3}})
		if err != nil {
			res.Setup = "open: " + err.Error()
			b, _ := json.Marshal(res)
			return string(b)
		}
	}
	if rq.Prior > 0 {
		// an earlier call with a longer context that stays live during the call under test
		pctx, pcancel := context.WithTimeout(context.Background(), time.Duration(rq.Prior)*time.Millisecond)
		defer pcancel()
		if sess != nil {
			if _, err := sess.GetDeviceID(pctx); err != nil {
				res.Setup = "prior: " + err.Error()
			}
		} else if _, err := c.GetSystemGUID(pctx); err != nil {
			res.Setup = "prior: " + err.Error()
		}
	}
	var ctx context.Context
	var cancel context.CancelFunc
	if rq.DeadlineMs <= 0 {
		ctx, cancel = context.WithDeadline(context.Background(), time.Now().Add(-time.Second))
	} else {
		ctx, cancel = context.WithTimeout(context.Background(), time.Duration(rq.DeadlineMs)*time.Millisecond)
	}
	defer cancel()
	fs.mu.Lock()
	fs.active = true
	fs.mu.Unlock()
	done := make(chan error, 1)
	start := time.Now()
	go func() {
		var err error
		switch rq.Call {
		case "sessionless":
			_, err = c.GetSystemGUID(ctx)
		case "open":
			var s *bmc.V2Session
			s, err = c.NewV2Session(ctx, &bmc.V2SessionOpts{SessionOpts: bmc.SessionOpts{Username: "admin", Password: []byte("secret"),
				MaxPrivilegeLevel: ipmi.PrivilegeLevelAdministrator}, PrivilegeLevelLookup: true})
			_ = s
		case "session":
			_, err = sess.GetDeviceID(ctx)
		case "close":
			err = sess.Close(ctx)
		case "sdr":
			_, err = bmc.RetrieveSDRRepository(ctx, sess)
		}
		done <- err
	}()
	// a metronome beside the call: how late does a 5 ms sleep wake up on this machine right now?  The library's own
	// timers (deadlines, back-off) are late by as much when the machine is busy; the verdict allows for it
	stopMetronome := make(chan struct{})
	jitter := make(chan float64, 1)
	go func() {
		worst := 0.0
		for {
			select {
			case <-stopMetronome:
				jitter <- worst
				return
			default:
			}
			t0 := time.Now()
			time.Sleep(5 * time.Millisecond)
			if late := float64(time.Since(t0).Microseconds())/1000 - 5; late > worst {
				worst = late
			}
		}
	}()
	defer func() {}()
	watchdog := time.Duration(rq.DeadlineMs)*time.Millisecond + 4*time.Second
	if rq.DeadlineMs <= 0 {
		watchdog = 4 * time.Second
	}
	select {
	case err := <-done:
		res.ElapsedMs = float64(time.Since(start).Microseconds()) / 1000
		res.Err = classifyErr(err)
		if err != nil {
			res.ErrText = err.Error()
			if strings.Contains(res.ErrText, "i/o timeout") && res.Err == "other" {
				res.Err = "timeout"
			}
		}
	case <-time.After(watchdog):
		res.Hang = true
		res.ElapsedMs = float64(time.Since(start).Microseconds()) / 1000
		res.Err = "hang"
	}
	close(stopMetronome)
	res.JitterMs = <-jitter
	fs.mu.Lock()
	res.Datagrams = fs.n
	fs.active = false
	fs.mu.Unlock()
	b, _ := json.Marshal(res)
	return string(b)
}

func init() {
	register("c13", func(w []string) string { return runC13(strings.Join(w[1:], " ")) })
}
