package main

import (
	"crypto/hmac"
	"crypto/md5"
	"crypto/sha1"
	"crypto/sha256"
	"fmt"
	"hash"
	"net"
	"reflect"
	"strings"
	"time"

	"github.com/gebn/bmc/pkg/dcmi"
	"github.com/gebn/bmc/pkg/ipmi"
	"github.com/google/gopacket"
	"github.com/google/gopacket/layers"
)

type decLayer interface {
	DecodeFromBytes([]byte, gopacket.DecodeFeedback) error
}

type layerSpec struct {
	mk      func(params []string) decLayer
	payload bool // print BaseLayer.Payload (layers that assign it)
}

type truncHash struct {
	hash.Hash
	n int
}

func (t truncHash) Sum(b []byte) []byte { s := t.Hash.Sum(b); return s[:len(b)+t.n] }
func (t truncHash) Size() int           { return t.n }

// integrityHash builds the hash.Hash the library would install for an
// integrity algorithm code and K1 (same construction as hasher.go, written
// independently so the layer can be exercised without a session).
func integrityHash(alg int, k1 []byte) hash.Hash {
	switch alg {
	case 0:
		return nil
	case 1:
		return truncHash{hmac.New(sha1.New, k1), 12}
	case 2:
		return hmac.New(md5.New, k1)
	case 4:
		return truncHash{hmac.New(sha256.New, k1), 16}
	}
	panic("unsupported integrity algorithm")
}

var layerSpecs = map[string]layerSpec{
	"rmcp":           {func([]string) decLayer { return &layers.RMCP{} }, true},
	"selector":       {func([]string) decLayer { return &ipmi.SessionSelector{} }, true},
	"v1session":      {func([]string) decLayer { return &ipmi.V1Session{} }, true},
	"message":        {func([]string) decLayer { return &ipmi.Message{} }, true},
	"opensessionrsp": {func([]string) decLayer { return &ipmi.OpenSessionRsp{} }, false},
	"rakp1":          {func([]string) decLayer { return &ipmi.RAKPMessage1{} }, false},
	"rakp2":          {func([]string) decLayer { return &ipmi.RAKPMessage2{} }, false},
	"rakp4":          {func([]string) decLayer { return &ipmi.RAKPMessage4{} }, false},
	"deviceid":       {func([]string) decLayer { return &ipmi.GetDeviceIDRsp{} }, false},
	"chassis":        {func([]string) decLayer { return &ipmi.GetChassisStatusRsp{} }, true},
	"authcaps":       {func([]string) decLayer { return &ipmi.GetChannelAuthenticationCapabilitiesRsp{} }, true},
	"ciphersuites":   {func([]string) decLayer { return &ipmi.GetChannelCipherSuitesRsp{} }, true},
	"sessioninfo":    {func([]string) decLayer { return &ipmi.GetSessionInfoRsp{} }, true},
	"setpriv":        {func([]string) decLayer { return &ipmi.SetSessionPrivilegeLevelRsp{} }, false},
	"guid":           {func([]string) decLayer { return &ipmi.GetSystemGUIDRsp{} }, false},
	"reserve":        {func([]string) decLayer { return &ipmi.ReserveSDRRepositoryRsp{} }, false},
	"getsdrrsp":      {func([]string) decLayer { return &ipmi.GetSDRRsp{} }, true},
	"sdrhdr":         {func([]string) decLayer { return &ipmi.SDR{} }, true},
	"sdrrepoinfo":    {func([]string) decLayer { return &ipmi.GetSDRRepositoryInfoRsp{} }, true},
	"sensorreading":  {func([]string) decLayer { return &ipmi.GetSensorReadingRsp{} }, true},
	"fsr":            {func([]string) decLayer { return &ipmi.FullSensorRecord{} }, true},
	"dcmicaps":       {func([]string) decLayer { return &dcmi.GetDCMICapabilitiesInfoSupportedCapabilitiesRsp{} }, true},
	"dcmimand":       {func([]string) decLayer { return &dcmi.GetDCMICapabilitiesInfoMandatoryPlatformAttrsRsp{} }, true},
	"dcmiopt":        {func([]string) decLayer { return &dcmi.GetDCMICapabilitiesInfoOptionalPlatformAttrsRsp{} }, true},
	"dcmimgmt":       {func([]string) decLayer { return &dcmi.GetDCMICapabilitiesInfoManageabilityAccessAttrsRsp{} }, true},
	"dcmipower":      {func([]string) decLayer { return &dcmi.GetDCMICapabilitiesInfoEnhancedSystemPowerStatisticsAttrsRsp{} }, true},
	"powerreading":   {func([]string) decLayer { return &dcmi.GetPowerReadingRsp{} }, false},
	"dcmisensor":     {func([]string) decLayer { return &dcmi.GetDCMISensorInfoRsp{} }, true},
	"v2session": {func(p []string) decLayer {
		return &ipmi.V2Session{IntegrityAlgorithm: integrityHash(atoi(p[0]), unhex(p[1]))}
	}, true},
	"aes": {func(p []string) decLayer {
		var k [16]byte
		copy(k[:], unhex(p[0]))
		l, err := ipmi.NewAES128CBC(k)
		if err != nil {
			panic(err)
		}
		return l
	}, true},
}

var (
	layerTypeType = reflect.TypeOf(gopacket.LayerType(0))
	timeType      = reflect.TypeOf(time.Time{})
	durationType  = reflect.TypeOf(time.Duration(0))
	ipType        = reflect.TypeOf(net.IP{})
	macType       = reflect.TypeOf(net.HardwareAddr{})
	baseLayerType = reflect.TypeOf(layers.BaseLayer{})
)

// flatten writes the observable fields of a decoded layer in declaration
// order: embedded structs inline, BaseLayer / interface-typed / LayerType /
// unexported non-embedded fields omitted.
func flatten(v reflect.Value, out *[]string) {
	t := v.Type()
	switch {
	case t == timeType:
		// time.Time has only unexported fields: use its Unix seconds
		sec := v.FieldByName("wall") // not portable; handled by caller instead
		_ = sec
		panic("time handled by caller")
	}
	switch v.Kind() {
	case reflect.Struct:
		for i := 0; i < t.NumField(); i++ {
			f := t.Field(i)
			fv := v.Field(i)
			if f.Type == baseLayerType {
				continue
			}
			if f.Type == timeType {
				*out = append(*out, fmt.Sprint(timeUnix(fv)))
				continue
			}
			if f.Type == layerTypeType || fv.Kind() == reflect.Interface || fv.Kind() == reflect.Func ||
				fv.Kind() == reflect.Ptr || fv.Kind() == reflect.Map {
				continue
			}
			if !f.IsExported() && !f.Anonymous {
				continue
			}
			flatten(fv, out)
		}
	case reflect.Bool:
		if v.Bool() {
			*out = append(*out, "t")
		} else {
			*out = append(*out, "f")
		}
	case reflect.Uint, reflect.Uint8, reflect.Uint16, reflect.Uint32, reflect.Uint64:
		*out = append(*out, fmt.Sprint(v.Uint()))
	case reflect.Int, reflect.Int8, reflect.Int16, reflect.Int32, reflect.Int64:
		*out = append(*out, fmt.Sprint(v.Int()))
	case reflect.String:
		*out = append(*out, "x"+tohex([]byte(v.String())))
	case reflect.Array:
		if t.Elem().Kind() == reflect.Uint8 {
			b := make([]byte, v.Len())
			for i := range b {
				b[i] = byte(v.Index(i).Uint())
			}
			*out = append(*out, "x"+tohex(b))
			return
		}
		for i := 0; i < v.Len(); i++ {
			flatten(v.Index(i), out)
		}
	case reflect.Slice:
		if t.Elem().Kind() == reflect.Uint8 {
			b := make([]byte, v.Len())
			for i := range b {
				b[i] = byte(v.Index(i).Uint())
			}
			*out = append(*out, "x"+tohex(b))
			return
		}
		*out = append(*out, fmt.Sprint(v.Len()))
		for i := 0; i < v.Len(); i++ {
			flatten(v.Index(i), out)
		}
	default:
		panic("flatten: unsupported kind " + v.Kind().String() + " in " + t.String())
	}
}

// timeUnix reads a time.Time held in a (possibly unexported) struct field.
func timeUnix(v reflect.Value) int64 {
	if v.CanInterface() {
		return v.Interface().(time.Time).Unix()
	}
	// copy into an addressable, interfaceable value
	p := reflect.New(timeType)
	p.Elem().Set(reflect.NewAt(timeType, v.Addr().UnsafePointer()).Elem())
	return p.Elem().Interface().(time.Time).Unix()
}

func showLayer(l decLayer, withPayload bool) string {
	var out []string
	flatten(reflect.ValueOf(l).Elem(), &out)
	if withPayload {
		type payloader interface{ LayerPayload() []byte }
		out = append(out, "x"+tohex(l.(payloader).LayerPayload()))
	}
	return "ok " + strings.Join(out, " ")
}

// decodeOnce: fresh layer, optionally primed with an earlier decode, then the
// decode under test.
func decodeOnce(name string, old string, data []byte) string {
	parts := strings.Split(name, ":")
	spec, ok := layerSpecs[parts[0]]
	if !ok {
		panic("unknown layer " + name)
	}
	l := spec.mk(parts[1:])
	if old != "_" {
		ob := unhex(old)
		cp := make([]byte, len(ob))
		copy(cp, ob)
		if err := l.DecodeFromBytes(cp, gopacket.NilDecodeFeedback); err != nil {
			return "olderr"
		}
	}
	if err := l.DecodeFromBytes(data, gopacket.NilDecodeFeedback); err != nil {
		return "err"
	}
	return showLayer(l, spec.payload)
}

func init() {
	register("dec", func(w []string) string {
		name, old, data := w[1], w[2], unhex(w[3])
		return guarded(data, func(d []byte) string {
			// the AES layer decrypts in place: give every run its own copy
			return decodeOnce(name, old, d)
		})
	})
}
