#!/bin/sh
# build the harness from /repo's current working tree with the verif hooks on
set -e
cd "$(dirname "$0")"
export GOFLAGS=-mod=mod GOPROXY=off GOSUMDB=off GOTOOLCHAIN=local
cp /repo/go.sum go.sum
go build -tags verif -o harness . 
