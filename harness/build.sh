#!/bin/sh
# build the harness from /repo's current working tree with the verif hooks on
set -e
cd "$(dirname "$0")"
export GOFLAGS=-mod=mod GOPROXY=off GOSUMDB=off GOTOOLCHAIN=local
cp /repo/go.sum go.sum
go build -tags verif -o harness . 
# race-detector variant (C19); built on demand by the C19 check: ./build.sh race
if [ "$1" = race ]; then CGO_ENABLED=1 go build -race -tags verif -o harness_race . ; fi
