package sim

import "encoding/binary"

const (
	netFnChassis uint8 = 0x00
	netFnSensor  uint8 = 0x04
	netFnApp     uint8 = 0x06
	netFnStorage uint8 = 0x0A
	bodyDCMI     uint8 = 0xDC
	lanChannel   uint8 = 0x01
)

// builtinHandlers returns the built-in command table. It is built per BMC so
// that no mutable state is shared between instances.
func builtinHandlers() map[CmdKey]Handler {
	return map[CmdKey]Handler{
		{NetFn: netFnApp, Cmd: 0x01}: getDeviceID,
		{NetFn: netFnApp, Cmd: 0x37}: getSystemGUID,
		{NetFn: netFnApp, Cmd: 0x38}: getChannelAuthenticationCapabilities,
		{NetFn: netFnApp, Cmd: 0x3B}: setSessionPrivilegeLevel,
		{NetFn: netFnApp, Cmd: 0x3C}: closeSession,
		{NetFn: netFnApp, Cmd: 0x3D}: getSessionInfo,
		{NetFn: netFnApp, Cmd: 0x54}: getChannelCipherSuites,

		{NetFn: netFnChassis, Cmd: 0x01}: getChassisStatus,
		{NetFn: netFnChassis, Cmd: 0x02}: chassisControl,

		{NetFn: netFnSensor, Cmd: 0x2D}: getSensorReading,

		{NetFn: netFnStorage, Cmd: 0x20}: getSDRRepositoryInfo,
		{NetFn: netFnStorage, Cmd: 0x22}: reserveSDRRepository,
		{NetFn: netFnStorage, Cmd: 0x23}: getSDR,

		{NetFn: netFnGroupExtensionReq, Cmd: 0x01, Body: bodyDCMI}: getDCMICapabilitiesInfo,
		{NetFn: netFnGroupExtensionReq, Cmd: 0x02, Body: bodyDCMI}: getPowerReading,
		{NetFn: netFnGroupExtensionReq, Cmd: 0x07, Body: bodyDCMI}: getDCMISensorInfo,
	}
}

func getDeviceID(b *BMC, _ *Session, _ uint8, _ []byte) (uint8, []byte) {
	return CCOK, clone(b.DeviceID)
}

func getSystemGUID(b *BMC, _ *Session, _ uint8, _ []byte) (uint8, []byte) {
	return CCOK, clone(b.GUID[:])
}

func getChassisStatus(b *BMC, _ *Session, _ uint8, _ []byte) (uint8, []byte) {
	return CCOK, clone(b.ChassisStatus)
}

func chassisControl(b *BMC, _ *Session, _ uint8, data []byte) (uint8, []byte) {
	if len(data) < 1 {
		return CCRequestLengthInvalid, nil
	}
	b.LastChassisControl = data[0] & 0x0F
	b.ChassisControls++
	return CCOK, nil
}

func getChannelAuthenticationCapabilities(b *BMC, _ *Session, _ uint8, data []byte) (uint8, []byte) {
	if len(data) < 2 {
		return CCRequestLengthInvalid, nil
	}
	status := uint8(0x04) // non-null user names enabled
	if len(b.kg()) != 0 {
		status |= 0x20 // K_G is set to a non-zero value
	}
	return CCOK, []byte{
		lanChannel,
		0x84, // extended capabilities available; MD5 (for v1.5, unused here)
		status,
		0x02,             // channel supports IPMI v2.0 connections
		0x00, 0x00, 0x00, // OEM ID
		0x00, // OEM auxiliary data
	}
}

func getChannelCipherSuites(b *BMC, _ *Session, _ uint8, data []byte) (uint8, []byte) {
	if len(data) < 3 {
		return CCRequestLengthInvalid, nil
	}
	records := b.cfg.CipherSuiteRecords
	if records == nil {
		records = EncodeCipherSuiteRecords(b.cfg.Suites)
	}
	start := 16 * int(data[2]&0x3F)
	end := start + 16
	if start > len(records) {
		start = len(records)
	}
	if end > len(records) {
		end = len(records)
	}
	return CCOK, append([]byte{lanChannel}, records[start:end]...)
}

func setSessionPrivilegeLevel(_ *BMC, s *Session, _ uint8, data []byte) (uint8, []byte) {
	if s == nil {
		return CCInsufficientPrivilege, nil
	}
	if len(data) < 1 {
		return CCRequestLengthInvalid, nil
	}
	switch level := data[0] & 0x0F; {
	case level == 0: // no change, report the current level
	case level > 5:
		return CCInvalidDataField, nil
	case level > s.maxPriv:
		return CCPrivilegeUnavailable, nil
	default:
		s.Priv = level
	}
	return CCOK, []byte{s.Priv}
}

func closeSession(b *BMC, _ *Session, _ uint8, data []byte) (uint8, []byte) {
	if len(data) < 4 {
		return CCRequestLengthInvalid, nil
	}
	target := b.byID[binary.LittleEndian.Uint32(data)]
	if target == nil || target.Closed {
		return CCInvalidSessionID, nil
	}
	// When a session closes itself the reply is still protected with its
	// keys; only subsequent packets are dropped.
	target.Closed = true
	return CCOK, nil
}

func (b *BMC) activeSessions() uint8 {
	n := uint8(0)
	for _, s := range b.sessions {
		if s.Active && !s.Closed {
			n++
		}
	}
	return n
}

func getSessionInfo(b *BMC, s *Session, _ uint8, data []byte) (uint8, []byte) {
	if len(data) < 1 {
		return CCRequestLengthInvalid, nil
	}
	maxSessions := uint8(4)
	if b.MaxSessions > 0 && b.MaxSessions < 64 {
		maxSessions = uint8(b.MaxSessions)
	}
	target := (*Session)(nil)
	switch data[0] {
	case 0x00: // the session this command was received over
		target = s
	case 0xFF: // look up by BMC session ID
		if len(data) < 5 {
			return CCRequestLengthInvalid, nil
		}
		target = b.byID[binary.LittleEndian.Uint32(data[1:])]
	}
	if target == nil || !target.Active || target.Closed {
		return CCOK, []byte{0x00, maxSessions, b.activeSessions()}
	}
	return CCOK, []byte{
		0x01, // session handle
		maxSessions,
		b.activeSessions(),
		target.userID & 0x3F,
		target.Priv & 0x0F,
		0x10 | lanChannel, // IPMI v2.0/RMCP+ session on channel 1
	}
}

func getSensorReading(b *BMC, _ *Session, _ uint8, data []byte) (uint8, []byte) {
	if len(data) < 1 {
		return CCRequestLengthInvalid, nil
	}
	reading, ok := b.Sensors[data[0]]
	if !ok {
		return CCRequestedNotPresent, nil
	}
	return CCOK, clone(reading)
}

// ModifySDRs swaps the SDR repository contents and timestamps, cancelling any
// outstanding reservation: partial reads using it then fail with 0xC5.
func (b *BMC) ModifySDRs(newRecords []SDRRecord, additionTS, eraseTS uint32) {
	b.SDRs = newRecords
	b.AdditionTS, b.EraseTS = additionTS, eraseTS
	b.reserved = false
}

func getSDRRepositoryInfo(b *BMC, _ *Session, _ uint8, _ []byte) (uint8, []byte) {
	rsp := []byte{0x51}
	rsp = binary.LittleEndian.AppendUint16(rsp, uint16(len(b.SDRs)))
	rsp = binary.LittleEndian.AppendUint16(rsp, 0xFFFF) // free space: unspecified
	rsp = binary.LittleEndian.AppendUint32(rsp, b.AdditionTS)
	rsp = binary.LittleEndian.AppendUint32(rsp, b.EraseTS)
	return CCOK, append(rsp, 0x22) // non-modal update, reserve supported
}

func reserveSDRRepository(b *BMC, _ *Session, _ uint8, _ []byte) (uint8, []byte) {
	b.reservation++
	if b.reservation == 0 { // 0 is never handed out
		b.reservation = 1
	}
	b.reserved = true
	return CCOK, binary.LittleEndian.AppendUint16(nil, b.reservation)
}

// sdrIndex resolves a record ID to an index into b.SDRs, or -1.
func (b *BMC) sdrIndex(id uint16) int {
	switch {
	case len(b.SDRs) == 0:
		return -1
	case id == 0x0000:
		return 0
	case id == 0xFFFF:
		return len(b.SDRs) - 1
	}
	for i, r := range b.SDRs {
		if r.ID == id {
			return i
		}
	}
	return -1
}

func getSDR(b *BMC, _ *Session, _ uint8, data []byte) (uint8, []byte) {
	if len(data) < 6 {
		return CCRequestLengthInvalid, nil
	}
	reservation := binary.LittleEndian.Uint16(data[0:2])
	offset, count := int(data[4]), int(data[5])
	if offset != 0 && (!b.reserved || reservation != b.reservation) {
		return CCReservationCancelled, nil
	}
	i := b.sdrIndex(binary.LittleEndian.Uint16(data[2:4]))
	if i < 0 {
		return CCRequestedNotPresent, nil
	}
	record := b.SDRs[i].Data
	if offset >= len(record) {
		return CCParameterOutOfRange, nil
	}
	end := offset + count
	if count == 0xFF || end > len(record) {
		end = len(record) // 0xFF = rest of record; over-long reads are truncated
	}
	next := uint16(0xFFFF)
	if i+1 < len(b.SDRs) {
		next = b.SDRs[i+1].ID
	}
	return CCOK, append(binary.LittleEndian.AppendUint16(nil, next), record[offset:end]...)
}

func getDCMICapabilitiesInfo(b *BMC, _ *Session, _ uint8, data []byte) (uint8, []byte) {
	if len(data) < 1 {
		return CCRequestLengthInvalid, nil
	}
	caps, ok := b.DCMICaps[data[0]]
	if !ok {
		return CCInvalidDataField, nil
	}
	return CCOK, clone(caps)
}

func getPowerReading(b *BMC, _ *Session, _ uint8, _ []byte) (uint8, []byte) {
	return CCOK, clone(b.PowerReading)
}

func getDCMISensorInfo(b *BMC, _ *Session, _ uint8, data []byte) (uint8, []byte) {
	if len(data) < 4 {
		return CCRequestLengthInvalid, nil
	}
	ids := b.DCMISensors[data[1]]
	instance, first := int(data[2]), int(data[3])
	page := b.DCMIPageSize
	if page <= 0 {
		page = 8
	}
	if instance != 0 { // one specific instance
		first, page = instance, 1
	} else if first == 0 {
		first = 1
	}
	lo, hi := first-1, first-1+page
	if lo > len(ids) {
		lo = len(ids)
	}
	if hi > len(ids) {
		hi = len(ids)
	}
	total := len(ids) + b.DCMIOvercount // (a BMC whose total is larger than what it serves: the pages run dry early)
	if total > 0xFF {
		total = 0xFF
	}
	rsp := []byte{uint8(total), uint8(hi - lo)}
	for _, id := range ids[lo:hi] {
		rsp = binary.LittleEndian.AppendUint16(rsp, id)
	}
	return CCOK, rsp
}
