package sim_test

// These tests drive the simulated BMC with an independent mini-client: all
// encoding, decoding and cryptography on the console side is implemented here
// from the specification with the standard library, deliberately not reusing
// the sim package's builders, so that a mistake in one is not masked by the
// same mistake in the other. The builders are cross-checked against the
// mini-client's encoders separately.

import (
	"bytes"
	"crypto/aes"
	"crypto/cipher"
	"crypto/hmac"
	"crypto/md5"
	"crypto/sha1"
	"crypto/sha256"
	"encoding/binary"
	"encoding/hex"
	"fmt"
	"hash"
	"testing"

	"verifharness/sim"
)

var le = binary.LittleEndian

// ---- independent console-side primitives ----

func cHMAC(alg uint8, key, msg []byte) []byte {
	h := map[uint8]func() hash.Hash{1: sha1.New, 2: md5.New, 3: sha256.New}[alg]
	m := hmac.New(h, key)
	m.Write(msg)
	return m.Sum(nil)
}

func cAuthCode(integ uint8, k1, msg []byte) []byte {
	switch integ {
	case 1:
		return cHMAC(1, k1, msg)[:12]
	case 2:
		return cHMAC(2, k1, msg)
	case 4:
		return cHMAC(3, k1, msg)[:16]
	}
	panic("unknown integrity algorithm")
}

func cChecksum(b []byte) uint8 {
	s := 0
	for _, v := range b {
		s += int(v)
	}
	return uint8(0x100 - s%0x100)
}

func cRequest(netFn, lun, rqSeq, cmd uint8, data []byte) []byte {
	m := []byte{0x20, netFn<<2 | lun}
	m = append(m, cChecksum(m), 0x81, rqSeq<<2, cmd)
	m = append(m, data...)
	return append(m, cChecksum(m[3:]))
}

func cCBC(k2, iv, plain []byte, encrypt bool) []byte {
	c, _ := aes.NewCipher(k2[:16])
	out := make([]byte, len(plain))
	if encrypt {
		cipher.NewCBCEncrypter(c, iv).CryptBlocks(out, plain)
	} else {
		cipher.NewCBCDecrypter(c, iv).CryptBlocks(out, plain)
	}
	return out
}

// cEncrypt returns IV | AES-CBC(data | 01..n | n).
func cEncrypt(k2, iv, data []byte) []byte {
	plain := append([]byte{}, data...)
	for i := 1; (len(plain)+1)%16 != 0; i++ {
		plain = append(plain, uint8(i))
	}
	plain = append(plain, uint8(len(plain)-len(data)))
	return append(append([]byte{}, iv...), cCBC(k2, iv, plain, true)...)
}

// cWrap builds a datagram. ptype carries the flag bits; wire is the payload as
// sent. If k1 is non-nil the integrity trailer is added.
func cWrap(ptype uint8, sid, seq uint32, wire []byte, integ uint8, k1 []byte) []byte {
	p := []byte{0x06, ptype}
	p = le.AppendUint32(p, sid)
	p = le.AppendUint32(p, seq)
	p = le.AppendUint16(p, uint16(len(wire)))
	p = append(p, wire...)
	if k1 != nil {
		pad := 0
		for (len(p)+pad+2)%4 != 0 {
			pad++
		}
		p = append(p, bytes.Repeat([]byte{0xFF}, pad)...)
		p = append(p, uint8(pad), 0x07)
		p = append(p, cAuthCode(integ, k1, p)...)
	}
	return append([]byte{0x06, 0x00, 0xFF, 0x07}, p...)
}

// cUnwrapSessionless checks a reply sent outside a session and returns its
// payload.
func cUnwrapSessionless(t *testing.T, d []byte, wantType uint8) []byte {
	t.Helper()
	if len(d) < 16 || !bytes.Equal(d[:6], []byte{0x06, 0x00, 0xFF, 0x07, 0x06, wantType}) {
		t.Fatalf("bad sessionless reply header: %x", d)
	}
	if le.Uint32(d[6:]) != 0 || le.Uint32(d[10:]) != 0 {
		t.Fatalf("sessionless reply has non-zero session ID/sequence: %x", d)
	}
	if int(le.Uint16(d[14:])) != len(d)-16 {
		t.Fatalf("sessionless reply length field mismatch: %x", d)
	}
	return d[16:]
}

// cResponse validates a response message and returns completion code + data.
func cResponse(t *testing.T, m []byte, netFn, rqSeq, cmd uint8) (uint8, []byte) {
	t.Helper()
	if len(m) < 8 {
		t.Fatalf("response message too short: %x", m)
	}
	want := []byte{0x81, (netFn + 1) << 2, 0, 0x20, rqSeq << 2, cmd}
	want[2] = cChecksum(want[:2])
	if !bytes.Equal(m[:6], want) {
		t.Fatalf("response header = %x, want %x", m[:6], want)
	}
	if m[len(m)-1] != cChecksum(m[3:len(m)-1]) {
		t.Fatalf("response checksum 2 wrong: %x", m)
	}
	return m[6], m[7 : len(m)-1]
}

// ---- mini-client ----

type client struct {
	t                 *testing.T
	bmc               *sim.BMC
	auth, integ, conf uint8
	name              string
	password, kg      []byte
	role              uint8
	consoleID, bmcID  uint32
	rm, rc, guid      [16]byte
	sik, k1, k2       []byte
	seq, inSeq        uint32
	rqSeq             uint8
}

func algPayload(kind, alg uint8) []byte { return []byte{kind, 0, 0, 8, alg, 0, 0, 0} }

func (c *client) open() (status uint8) {
	c.t.Helper()
	req := []byte{0xA1, c.role & 0xF, 0, 0}
	req = le.AppendUint32(req, c.consoleID)
	req = append(req, algPayload(0, c.auth)...)
	req = append(req, algPayload(1, c.integ)...)
	req = append(req, algPayload(2, c.conf)...)
	rsp := cUnwrapSessionless(c.t, c.bmc.Handle(cWrap(0x10, 0, 0, req, 0, nil)), 0x11)
	if rsp[0] != 0xA1 {
		c.t.Fatalf("open session tag not echoed: %x", rsp)
	}
	if rsp[1] != 0 {
		if len(rsp) != 8 || le.Uint32(rsp[4:]) != c.consoleID {
			c.t.Fatalf("bad open session error response: %x", rsp)
		}
		return rsp[1]
	}
	if len(rsp) != 36 || le.Uint32(rsp[4:]) != c.consoleID {
		c.t.Fatalf("bad open session response: %x", rsp)
	}
	c.bmcID = le.Uint32(rsp[8:])
	want := append(append(algPayload(0, c.auth), algPayload(1, c.integ)...), algPayload(2, c.conf)...)
	if c.bmcID == 0 || !bytes.Equal(rsp[12:], want) {
		c.t.Fatalf("open session response ID/algorithms wrong: %x", rsp)
	}
	return 0
}

func (c *client) roleName() []byte {
	return append([]byte{c.role, uint8(len(c.name))}, c.name...)
}

// rakp1 sends RAKP 1 and returns the status and whether RAKP 2's key exchange
// authentication code verified.
func (c *client) rakp1() (status uint8, codeOK bool) {
	c.t.Helper()
	req := []byte{0xB2, 0, 0, 0}
	req = le.AppendUint32(req, c.bmcID)
	req = append(req, c.rm[:]...)
	req = append(req, c.role, 0, 0, uint8(len(c.name)))
	req = append(req, c.name...)
	rsp := cUnwrapSessionless(c.t, c.bmc.Handle(cWrap(0x12, 0, 0, req, 0, nil)), 0x13)
	if rsp[0] != 0xB2 || len(rsp) < 8 {
		c.t.Fatalf("bad RAKP 2: %x", rsp)
	}
	if rsp[1] != 0 {
		if len(rsp) != 8 {
			c.t.Fatalf("RAKP 2 error form should be 8 bytes: %x", rsp)
		}
		return rsp[1], false
	}
	hashLen := map[uint8]int{1: 20, 2: 16, 3: 32}[c.auth]
	if len(rsp) != 40+hashLen || le.Uint32(rsp[4:]) != c.consoleID {
		c.t.Fatalf("bad RAKP 2 length/ID: %x", rsp)
	}
	copy(c.rc[:], rsp[8:24])
	copy(c.guid[:], rsp[24:40])
	msg := le.AppendUint32(nil, c.consoleID)
	msg = le.AppendUint32(msg, c.bmcID)
	msg = append(msg, c.rm[:]...)
	msg = append(msg, c.rc[:]...)
	msg = append(msg, c.guid[:]...)
	msg = append(msg, c.roleName()...)
	return 0, hmac.Equal(rsp[40:], cHMAC(c.auth, c.password, msg))
}

// rakp3 sends RAKP 3, and on success derives the session keys and returns
// whether RAKP 4's integrity check value verified.
func (c *client) rakp3() (status uint8, icvOK bool) {
	c.t.Helper()
	msg := append([]byte{}, c.rc[:]...)
	msg = le.AppendUint32(msg, c.consoleID)
	msg = append(msg, c.roleName()...)
	req := []byte{0xC3, 0, 0, 0}
	req = le.AppendUint32(req, c.bmcID)
	req = append(req, cHMAC(c.auth, c.password, msg)...)
	rsp := cUnwrapSessionless(c.t, c.bmc.Handle(cWrap(0x14, 0, 0, req, 0, nil)), 0x15)
	if rsp[0] != 0xC3 || len(rsp) < 8 || le.Uint32(rsp[4:]) != c.consoleID {
		c.t.Fatalf("bad RAKP 4: %x", rsp)
	}
	if rsp[1] != 0 {
		if len(rsp) != 8 {
			c.t.Fatalf("RAKP 4 error form should be 8 bytes: %x", rsp)
		}
		return rsp[1], false
	}
	key := c.kg
	if len(key) == 0 {
		key = c.password
	}
	msg = append(append([]byte{}, c.rm[:]...), c.rc[:]...)
	c.sik = cHMAC(c.auth, key, append(msg, c.roleName()...))
	c.k1 = cHMAC(c.auth, c.sik, bytes.Repeat([]byte{1}, 20))
	c.k2 = cHMAC(c.auth, c.sik, bytes.Repeat([]byte{2}, 20))
	msg = le.AppendUint32(append([]byte{}, c.rm[:]...), c.bmcID)
	icv := cHMAC(c.auth, c.sik, append(msg, c.guid[:]...))
	return 0, hmac.Equal(rsp[8:], icv[:map[uint8]int{1: 12, 2: 16, 3: 16}[c.auth]])
}

func (c *client) establish() {
	c.t.Helper()
	if st := c.open(); st != 0 {
		c.t.Fatalf("open session status %#x", st)
	}
	if st, ok := c.rakp1(); st != 0 || !ok {
		c.t.Fatalf("RAKP 2 status %#x, auth code ok %v", st, ok)
	}
	if st, ok := c.rakp3(); st != 0 || !ok {
		c.t.Fatalf("RAKP 4 status %#x, ICV ok %v", st, ok)
	}
}

// packet builds a signed and encrypted in-session datagram.
func (c *client) packet(seq uint32, msg []byte) []byte {
	iv := sha256.Sum256(le.AppendUint32([]byte("iv"), seq)) // any IV will do
	return cWrap(0xC0, c.bmcID, seq, cEncrypt(c.k2, iv[:16], msg), c.integ, c.k1)
}

// decode verifies and decrypts an in-session reply, returning the message.
func (c *client) decode(d []byte) []byte {
	c.t.Helper()
	if len(d) < 16 || !bytes.Equal(d[:6], []byte{0x06, 0x00, 0xFF, 0x07, 0x06, 0xC0}) {
		c.t.Fatalf("bad in-session reply header: %x", d)
	}
	c.inSeq++
	if le.Uint32(d[6:]) != c.consoleID || le.Uint32(d[10:]) != c.inSeq {
		c.t.Fatalf("reply session ID/sequence = %#x/%d, want %#x/%d",
			le.Uint32(d[6:]), le.Uint32(d[10:]), c.consoleID, c.inSeq)
	}
	plen := int(le.Uint16(d[14:]))
	codeLen := map[uint8]int{1: 12, 2: 16, 4: 16}[c.integ]
	pad := (4 - (12+plen+2)%4) % 4
	if len(d) != 16+plen+pad+2+codeLen {
		c.t.Fatalf("reply length %d inconsistent with payload %d pad %d", len(d), plen, pad)
	}
	trailer := d[16+plen:]
	if !bytes.Equal(trailer[:pad+2], append(bytes.Repeat([]byte{0xFF}, pad), uint8(pad), 0x07)) {
		c.t.Fatalf("bad integrity pad/next header: %x", trailer)
	}
	if !hmac.Equal(trailer[pad+2:], cAuthCode(c.integ, c.k1, d[4:len(d)-codeLen])) {
		c.t.Fatalf("reply AuthCode does not verify")
	}
	enc := d[16 : 16+plen]
	if plen < 32 || plen%16 != 0 {
		c.t.Fatalf("bad encrypted payload length %d", plen)
	}
	plain := cCBC(c.k2, enc[:16], enc[16:], false)
	n := int(plain[len(plain)-1])
	if n > 15 {
		c.t.Fatalf("AES pad length %d", n)
	}
	for i := 0; i < n; i++ {
		if plain[len(plain)-1-n+i] != uint8(i+1) {
			c.t.Fatalf("bad AES pad: %x", plain)
		}
	}
	return plain[:len(plain)-1-n]
}

func (c *client) cmd(netFn, cmd uint8, data []byte) (uint8, []byte) {
	c.t.Helper()
	c.seq++
	c.rqSeq = (c.rqSeq + 1) & 0x3F
	reply := c.bmc.Handle(c.packet(c.seq, cRequest(netFn, 0, c.rqSeq, cmd, data)))
	if reply == nil {
		c.t.Fatalf("no reply to %#x/%#x: %s", netFn, cmd, c.bmc.Log[len(c.bmc.Log)-1].Reject)
	}
	return cResponse(c.t, c.decode(reply), netFn, c.rqSeq, cmd)
}

func (c *client) last() sim.Event { return c.bmc.Log[len(c.bmc.Log)-1] }

// ---- fixtures ----

var (
	testGUID = [16]byte{0xF0, 0xE1, 0xD2, 0xC3, 0xB4, 0xA5, 0x96, 0x87, 0x78, 0x69, 0x5A, 0x4B, 0x3C, 0x2D, 0x1E, 0x0F}
	testKG   = []byte("twenty-byte-bmc-key!")
	testSDRs = []sim.SDRRecord{
		{ID: 1, Data: append([]byte{1, 0, 0x51, 0x01, 43}, bytes.Repeat([]byte{0xAA}, 43)...)},
		{ID: 7, Data: append([]byte{7, 0, 0x51, 0x02, 27}, bytes.Repeat([]byte{0xBB}, 27)...)},
		{ID: 9, Data: append([]byte{9, 0, 0x51, 0x12, 11}, bytes.Repeat([]byte{0xCC}, 11)...)},
	}
)

func allSuites() []sim.Suite {
	var s []sim.Suite
	for _, a := range []uint8{1, 2, 3} {
		for _, i := range []uint8{1, 2, 4} {
			s = append(s, sim.Suite{ID: uint8(len(s)), Auth: a, Integ: i, Conf: 1})
		}
	}
	return s
}

func newPair(t *testing.T, auth, integ uint8, kg []byte) (*sim.BMC, *client) {
	b := sim.New(sim.Config{
		Users: []sim.User{
			{Name: "operator", Password: []byte("op-pass"), MaxPriv: 3},
			{Name: "admin", Password: []byte("s3cret"), MaxPriv: 4},
		},
		KG: kg, GUID: testGUID, Seed: 42, Suites: allSuites(),
	})
	b.SDRs = testSDRs
	c := &client{
		t: t, bmc: b, auth: auth, integ: integ, conf: 1,
		name: "admin", password: []byte("s3cret"), kg: kg,
		role: 0x14, consoleID: 0xA0A1A2A3,
	}
	copy(c.rm[:], "console-random-0")
	return b, c
}

// ---- tests ----

func TestHandshakeAndCommandsAllSuites(t *testing.T) {
	for _, auth := range []uint8{1, 2, 3} {
		for _, integ := range []uint8{1, 2, 4} {
			for _, kg := range [][]byte{nil, testKG} {
				t.Run(fmt.Sprintf("auth%d-integ%d-kg%v", auth, integ, kg != nil), func(t *testing.T) {
					b, c := newPair(t, auth, integ, kg)
					c.establish()
					s := b.Sessions()[0]
					if !s.Active || s.Closed || s.User != "admin" || s.Role != 0x14 || s.Priv != 2 ||
						s.ConsoleID != c.consoleID || s.BMCID != c.bmcID ||
						!bytes.Equal(s.SIK, c.sik) || !bytes.Equal(s.K1, c.k1) || !bytes.Equal(s.K2, c.k2) {
						t.Fatalf("session state mismatch: %+v", s)
					}
					if b.GUID != c.guid {
						t.Fatalf("RAKP 2 GUID = %x", c.guid)
					}

					cc, rsp := c.cmd(0x06, 0x01, nil) // Get Device ID
					if cc != 0 || !bytes.Equal(rsp, b.DeviceID) || len(rsp) != 15 {
						t.Fatalf("Get Device ID: cc %#x data %x", cc, rsp)
					}
					ev := c.last()
					if ev.Kind != "ipmi-session" || !ev.Accepted || !ev.InOrder || !ev.Authenticated ||
						!ev.Encrypted || ev.Seq != 1 || ev.SessionID != c.bmcID || len(ev.IVHex) != 32 ||
						ev.Message.NetFn != 0x06 || ev.Message.Cmd != 0x01 || ev.Message.RqAddr != 0x81 {
						t.Fatalf("event mismatch: %+v", ev)
					}

					cc, rsp = c.cmd(0x0A, 0x22, nil) // Reserve SDR Repository
					if cc != 0 || len(rsp) != 2 {
						t.Fatalf("Reserve SDR Repository: cc %#x data %x", cc, rsp)
					}
					res := rsp
					// Get SDR: whole first record, then a partial read of the second.
					cc, rsp = c.cmd(0x0A, 0x23, []byte{0, 0, 0, 0, 0, 0xFF})
					if cc != 0 || !bytes.Equal(rsp, append([]byte{7, 0}, testSDRs[0].Data...)) {
						t.Fatalf("Get SDR first: cc %#x data %x", cc, rsp)
					}
					cc, rsp = c.cmd(0x0A, 0x23, []byte{res[0], res[1], 7, 0, 5, 10})
					if cc != 0 || !bytes.Equal(rsp, append([]byte{9, 0}, testSDRs[1].Data[5:15]...)) {
						t.Fatalf("Get SDR partial: cc %#x data %x", cc, rsp)
					}
					cc, rsp = c.cmd(0x0A, 0x23, []byte{0, 0, 0xFF, 0xFF, 0, 5})
					if cc != 0 || !bytes.Equal(rsp, append([]byte{0xFF, 0xFF}, testSDRs[2].Data[:5]...)) {
						t.Fatalf("Get SDR last: cc %#x data %x", cc, rsp)
					}
					if s.HighestSeq != 5 || s.OutSeq != 5 {
						t.Fatalf("sequence numbers: in %d out %d", s.HighestSeq, s.OutSeq)
					}
				})
			}
		}
	}
}

func TestWrongPassword(t *testing.T) {
	// The BMC holds a different password from the console.
	b, c := newPair(t, 1, 1, nil)
	b.OverridePassword = []byte("changed")
	if st := c.open(); st != 0 {
		t.Fatalf("open status %#x", st)
	}
	if st, ok := c.rakp1(); st != 0 || ok {
		t.Fatalf("RAKP 2 status %#x, auth code verified %v; want 0, false", st, ok)
	}
	if st, _ := c.rakp3(); st != 0x0F {
		t.Fatalf("RAKP 4 status %#x, want 0x0f", st)
	}
	if s := b.Sessions()[0]; s.Active || !s.Closed {
		t.Fatalf("session should be dropped: %+v", s)
	}
	if ev := c.last(); ev.Kind != "rakp3" || ev.CC != 0x0F || !ev.Accepted {
		t.Fatalf("event: %+v", ev)
	}
	// The dropped session ID is no longer usable.
	if st, _ := c.rakp1(); st != 0x02 {
		t.Fatalf("RAKP 1 on dropped session: status %#x, want 2", st)
	}

	// The console holds the wrong password.
	_, c = newPair(t, 3, 4, testKG)
	c.password = []byte("guess")
	c.open()
	if _, ok := c.rakp1(); ok {
		t.Fatal("RAKP 2 auth code verified with the wrong password")
	}
	if st, _ := c.rakp3(); st != 0x0F {
		t.Fatalf("RAKP 4 status %#x, want 0x0f", st)
	}

	// A K_G mismatch only shows in the RAKP 4 ICV.
	b, c = newPair(t, 1, 1, testKG)
	b.OverrideKG = []byte{}
	c.open()
	if st, ok := c.rakp1(); st != 0 || !ok {
		t.Fatalf("RAKP 2 status %#x ok %v", st, ok)
	}
	if st, ok := c.rakp3(); st != 0 || ok {
		t.Fatalf("RAKP 4 status %#x, ICV verified %v; want 0, false", st, ok)
	}
}

func TestSessionSetupErrors(t *testing.T) {
	b, c := newPair(t, 1, 1, nil)
	c.integ = 0 // (1,0,1) is not a configured suite
	if st := c.open(); st != 0x11 {
		t.Fatalf("open status %#x, want 0x11", st)
	}
	if len(b.Sessions()) != 0 {
		t.Fatal("session allocated for a rejected Open Session Request")
	}
	c.integ = 1
	c.open()
	good := c.bmcID
	c.bmcID ^= 0x5A5A
	if st, _ := c.rakp1(); st != 0x02 {
		t.Fatalf("RAKP 1 unknown session: status %#x, want 2", st)
	}
	c.bmcID = good
	c.name = "nobody"
	if st, _ := c.rakp1(); st != 0x0D {
		t.Fatalf("RAKP 1 unknown user: status %#x, want 0x0d", st)
	}
	// Privilege lookup: operator (max 3) does not match an admin request...
	c.name, c.password, c.role = "operator", []byte("op-pass"), 0x04
	if st, _ := c.rakp1(); st != 0x0D {
		t.Fatalf("RAKP 1 privilege lookup: status %#x, want 0x0d", st)
	}
	// ...but does with name-only lookup, capped at the user's limit.
	c.role = 0x14
	if st, ok := c.rakp1(); st != 0 || !ok {
		t.Fatalf("RAKP 1 name-only: status %#x ok %v", st, ok)
	}
	if st, ok := c.rakp3(); st != 0 || !ok {
		t.Fatalf("RAKP 3: status %#x ok %v", st, ok)
	}
	if cc, rsp := c.cmd(0x06, 0x3B, []byte{4}); cc != 0x81 || len(rsp) != 0 {
		t.Fatalf("Set Session Privilege Level admin: cc %#x %x", cc, rsp)
	}
	if cc, rsp := c.cmd(0x06, 0x3B, []byte{3}); cc != 0 || !bytes.Equal(rsp, []byte{3}) {
		t.Fatalf("Set Session Privilege Level operator: cc %#x %x", cc, rsp)
	}
	if cc, rsp := c.cmd(0x06, 0x3B, []byte{0}); cc != 0 || !bytes.Equal(rsp, []byte{3}) {
		t.Fatalf("Set Session Privilege Level query: cc %#x %x", cc, rsp)
	}
	if cc, rsp := c.cmd(0x06, 0x3D, []byte{0}); cc != 0 || !bytes.Equal(rsp, []byte{1, 4, 1, 1, 3, 0x11}) {
		t.Fatalf("Get Session Info: cc %#x %x", cc, rsp)
	}

	b.MaxSessions = 1
	_, c2 := newPair(t, 1, 1, nil)
	c2.bmc = b
	if st := c2.open(); st != 0x01 {
		t.Fatalf("open beyond MaxSessions: status %#x, want 1", st)
	}
}

func TestSequenceWindowAndReplay(t *testing.T) {
	b, c := newPair(t, 1, 1, nil)
	c.establish()
	msg := cRequest(0x06, 0, 1, 0x01, nil)
	send := func(seq uint32) (replied bool, ev sim.Event) {
		r := b.Handle(c.packet(seq, msg))
		return r != nil, c.last()
	}
	steps := []struct {
		seq              uint32
		replied, inOrder bool
	}{
		{1, true, true},
		{1, false, false},  // replay of the highest
		{2, true, true},    //
		{5, true, false},   // ahead, within +16
		{3, true, false},   // behind, within 8, unseen
		{3, false, false},  // replay within the window
		{22, false, false}, // 17 ahead
		{21, true, false},  // 16 ahead
		{12, false, false}, // 9 behind
		{13, true, false},  // 8 behind
		{0, false, false},  // reserved
		{22, true, true},
	}
	for i, st := range steps {
		replied, ev := send(st.seq)
		if replied != st.replied || ev.Accepted != st.replied || ev.InOrder != st.inOrder {
			t.Fatalf("step %d seq %d: replied %v accepted %v inOrder %v reject %q; want replied %v inOrder %v",
				i, st.seq, replied, ev.Accepted, ev.InOrder, ev.Reject, st.replied, st.inOrder)
		}
		if !replied && (ev.Reply != nil || ev.Reject == "") {
			t.Fatalf("step %d: dropped packet should log a reason and no reply: %+v", i, ev)
		}
	}
	if s := b.Sessions()[0]; s.HighestSeq != 22 || s.OutSeq != 7 {
		t.Fatalf("HighestSeq %d OutSeq %d", s.HighestSeq, s.OutSeq)
	}
	// A byte-for-byte replay of an earlier datagram is dropped too.
	if b.Handle(b.Log[len(b.Log)-1].Raw) != nil {
		t.Fatal("replayed datagram was answered")
	}
}

func TestMalformedInSessionPacketsDropped(t *testing.T) {
	b, c := newPair(t, 3, 4, testKG)
	c.establish()
	msg := cRequest(0x06, 0, 1, 0x01, nil)
	iv := bytes.Repeat([]byte{0x11}, 16)
	expectDrop := func(name string, d []byte) {
		t.Helper()
		if r := b.Handle(d); r != nil {
			t.Fatalf("%s: got a reply", name)
		}
		if ev := c.last(); ev.Accepted || ev.Reject == "" || ev.Kind != "ipmi-session" {
			t.Fatalf("%s: event %+v", name, ev)
		}
		t.Logf("%s: %s", name, c.last().Reject)
	}
	expectOK := func(name string, d []byte) {
		t.Helper()
		if r := b.Handle(d); r == nil {
			t.Fatalf("%s: dropped: %s", name, c.last().Reject)
		}
	}

	// Corrupted AuthCode; the sequence number is not consumed by a forgery.
	good := c.packet(1, msg)
	bad := append([]byte{}, good...)
	bad[len(bad)-1] ^= 0x01
	expectDrop("corrupted AuthCode", bad)
	bad = append([]byte{}, good...)
	bad[20] ^= 0x80 // ciphertext bit
	expectDrop("corrupted ciphertext", bad)
	expectOK("pristine packet after forgeries", good)

	// Bad AES pad: bytes 01 02 03 become 01 02 04; and pad length 16.
	plain := append(append([]byte{}, msg...), 1, 2, 3, 4, 5, 6, 7, 9, 8)
	if len(plain) != 16 {
		t.Fatalf("test assumes a 7-byte message, got %d", len(msg))
	}
	enc := append(append([]byte{}, iv...), cCBC(c.k2, iv, plain, true)...)
	expectDrop("bad AES pad byte", cWrap(0xC0, c.bmcID, 2, enc, c.integ, c.k1))
	expectDrop("IV only", cWrap(0xC0, c.bmcID, 3, iv, c.integ, c.k1))
	plain = append(bytes.Repeat([]byte{0}, 15), 1, 2, 3, 4, 5, 6, 7, 8, 9, 10, 11, 12, 13, 14, 15, 16, 16)
	enc = append(append([]byte{}, iv...), cCBC(c.k2, iv, plain, true)...)
	expectDrop("AES pad length 16", cWrap(0xC0, c.bmcID, 4, enc, c.integ, c.k1))

	// Integrity pad 0xFE with a correct AuthCode over it. A 7-byte message
	// encrypts to 32 bytes: 12+32+2 = 46, so two pad bytes are needed.
	enc = cEncrypt(c.k2, iv, msg)
	forge := func(seq uint32, trailer ...byte) []byte {
		p := []byte{0x06, 0xC0}
		p = le.AppendUint32(p, c.bmcID)
		p = le.AppendUint32(p, seq)
		p = le.AppendUint16(p, uint16(len(enc)))
		p = append(append(p, enc...), trailer...)
		p = append(p, cAuthCode(c.integ, c.k1, p)...)
		return append([]byte{0x06, 0x00, 0xFF, 0x07}, p...)
	}
	expectDrop("integrity pad 0xFE", forge(5, 0xFF, 0xFE, 2, 0x07))
	expectDrop("pad length byte wrong", forge(6, 0xFF, 0xFF, 1, 0x07))
	expectDrop("six pad bytes", forge(7, 0xFF, 0xFF, 0xFF, 0xFF, 0xFF, 0xFF, 6, 0x07))
	expectDrop("next header 0x08", forge(8, 0xFF, 0xFF, 2, 0x08))
	expectOK("well-formed trailer", forge(9, 0xFF, 0xFF, 2, 0x07))

	// Message-level checks.
	m := append([]byte{}, msg...)
	m[2]++
	expectDrop("checksum 1", c.packet(10, m))
	m = append([]byte{}, msg...)
	m[len(m)-1]++
	expectDrop("checksum 2", c.packet(11, m))
	m = cRequest(0x06, 0, 1, 0x01, nil)
	m[0], m[2] = 0x22, cChecksum([]byte{0x22, m[1]})
	expectDrop("rsAddr 0x22", c.packet(12, m))

	// Session-level checks.
	expectDrop("unauthenticated", cWrap(0x80, c.bmcID, 13, enc, 0, nil))
	expectDrop("unencrypted", cWrap(0x40, c.bmcID, 14, msg, c.integ, c.k1))
	expectDrop("unknown session", cWrap(0xC0, c.bmcID+1, 15, enc, c.integ, c.k1))
	d := c.packet(16, msg)
	d[2] = 0x00
	if b.Handle(d) != nil || c.last().Kind != "invalid" || c.last().Accepted {
		t.Fatalf("bad RMCP header: %+v", c.last())
	}
	expectOK("session still healthy", c.packet(17, msg))
}

func TestSessionlessCommands(t *testing.T) {
	suites := append(allSuites(), sim.Suite{ID: 0x80, Auth: 1, Integ: 1, Conf: 1, OEMIANA: 0x0ABCDE})
	b := sim.New(sim.Config{GUID: testGUID, KG: testKG, Suites: suites})
	do := func(netFn, cmd uint8, data []byte) (uint8, []byte) {
		t.Helper()
		r := b.Handle(cWrap(0x00, 0, 0, cRequest(netFn, 0, 9, cmd, data), 0, nil))
		if r == nil {
			t.Fatalf("no reply: %s", b.Log[len(b.Log)-1].Reject)
		}
		if ev := b.Log[len(b.Log)-1]; ev.Kind != "ipmi-sessionless" || !ev.Accepted {
			t.Fatalf("event: %+v", ev)
		}
		return cResponse(t, cUnwrapSessionless(t, r, 0x00), netFn, 9, cmd)
	}
	cc, rsp := do(0x06, 0x38, []byte{0x8E, 0x04})
	if cc != 0 || len(rsp) != 8 || rsp[0] != 1 || rsp[2]&0x20 == 0 || rsp[3] != 0x02 {
		t.Fatalf("Get Channel Authentication Capabilities: cc %#x %x", cc, rsp)
	}
	b.OverrideKG = []byte{}
	if _, rsp = do(0x06, 0x38, []byte{0x8E, 0x04}); rsp[2]&0x20 != 0 {
		t.Fatalf("KG status bit set without K_G: %x", rsp)
	}
	if cc, rsp = do(0x06, 0x37, nil); cc != 0 || !bytes.Equal(rsp, testGUID[:]) {
		t.Fatalf("Get System GUID: cc %#x %x", cc, rsp)
	}

	var records []byte
	for i := uint8(0); ; i++ {
		cc, rsp = do(0x06, 0x54, []byte{0x0E, 0x00, 0x80 | i})
		if cc != 0 || len(rsp) < 1 || len(rsp) > 17 || rsp[0] != 1 {
			t.Fatalf("Get Channel Cipher Suites %d: cc %#x %x", i, cc, rsp)
		}
		records = append(records, rsp[1:]...)
		if len(rsp) < 17 {
			break
		}
	}
	if len(records) != 9*5+8 || hex.EncodeToString(records[:5]) != "c000014181" ||
		hex.EncodeToString(records[45:]) != "c180debc0a014181" {
		t.Fatalf("cipher suite records: %x", records)
	}
	if !bytes.Equal(records, sim.EncodeCipherSuiteRecords(suites)) {
		t.Fatal("records differ from EncodeCipherSuiteRecords")
	}

	if cc, _ = do(0x06, 0x01, nil); cc != 0xD4 {
		t.Fatalf("Get Device ID outside a session: cc %#x, want 0xd4", cc)
	}
	if cc, _ = do(0x06, 0x99, nil); cc != 0xC1 {
		t.Fatalf("unknown command: cc %#x, want 0xc1", cc)
	}
	if cc, rsp = do(0x2C, 0x02, []byte{0xDC, 1, 0, 0}); cc != 0xD4 || !bytes.Equal(rsp, []byte{0xDC}) {
		t.Fatalf("DCMI outside a session: cc %#x %x", cc, rsp)
	}

	// Raw records are served verbatim.
	b = sim.New(sim.Config{CipherSuiteRecords: []byte{0xC0, 0x11, 0x03, 0x44, 0x81, 0xEE}})
	if cc, rsp = do(0x06, 0x54, []byte{0x0E, 0x00, 0x80}); cc != 0 || hex.EncodeToString(rsp) != "01c011034481ee" {
		t.Fatalf("raw cipher suite records: cc %#x %x", cc, rsp)
	}
	if cc, rsp = do(0x06, 0x54, []byte{0x0E, 0x00, 0x81}); cc != 0 || len(rsp) != 1 {
		t.Fatalf("cipher suite records past the end: cc %#x %x", cc, rsp)
	}
}

func TestSDRRepository(t *testing.T) {
	b, c := newPair(t, 1, 1, nil)
	b.AdditionTS, b.EraseTS = 0x11223344, 0x55667788
	c.establish()
	cc, rsp := c.cmd(0x0A, 0x20, nil)
	if cc != 0 || hex.EncodeToString(rsp) != "510300ffff443322118877665522" {
		t.Fatalf("Get SDR Repository Info: cc %#x %x", cc, rsp)
	}
	get := func(res []byte, id uint16, off, n uint8) (uint8, []byte) {
		return c.cmd(0x0A, 0x23, []byte{res[0], res[1], uint8(id), uint8(id >> 8), off, n})
	}
	if cc, _ = get([]byte{0, 0}, 1, 5, 4); cc != 0xC5 {
		t.Fatalf("partial read without reservation: cc %#x, want 0xc5", cc)
	}
	_, res1 := c.cmd(0x0A, 0x22, nil)
	_, res2 := c.cmd(0x0A, 0x22, nil)
	if le.Uint16(res2) != le.Uint16(res1)+1 {
		t.Fatalf("reservation IDs %x then %x", res1, res2)
	}
	if cc, _ = get(res1, 1, 5, 4); cc != 0xC5 {
		t.Fatalf("partial read with superseded reservation: cc %#x, want 0xc5", cc)
	}
	if cc, rsp = get(res2, 1, 5, 4); cc != 0 || !bytes.Equal(rsp, []byte{7, 0, 0xAA, 0xAA, 0xAA, 0xAA}) {
		t.Fatalf("partial read: cc %#x %x", cc, rsp)
	}
	if cc, _ = get(res2, 5, 0, 0xFF); cc != 0xCB {
		t.Fatalf("unknown record: cc %#x, want 0xcb", cc)
	}
	if cc, _ = get(res2, 9, 16, 1); cc != 0xC9 {
		t.Fatalf("offset beyond record: cc %#x, want 0xc9", cc)
	}
	b.ModifySDRs(testSDRs[1:], 0x20000000, 0x10000000)
	if cc, _ = get(res2, 7, 5, 4); cc != 0xC5 {
		t.Fatalf("partial read after ModifySDRs: cc %#x, want 0xc5", cc)
	}
	if cc, rsp = get(res2, 0, 0, 5); cc != 0 || !bytes.Equal(rsp, []byte{9, 0, 7, 0, 0x51, 0x02, 27}) {
		t.Fatalf("first record after ModifySDRs: cc %#x %x", cc, rsp)
	}
	if _, rsp = c.cmd(0x0A, 0x20, nil); hex.EncodeToString(rsp[1:3]) != "0200" || le.Uint32(rsp[5:]) != 0x20000000 {
		t.Fatalf("repository info after ModifySDRs: %x", rsp)
	}
}

func TestOtherCommands(t *testing.T) {
	b, c := newPair(t, 2, 2, nil)
	b.Sensors[0x30] = []byte{0x7B, 0xC0, 0x00}
	b.DCMICaps[1] = []byte{1, 5, 2, 0, 1, 7}
	b.DCMISensors[0x40] = []uint16{10, 11, 12, 13, 14, 15, 16, 17, 18, 19}
	b.DCMIPageSize = 4
	c.establish()

	if cc, rsp := c.cmd(0x00, 0x01, nil); cc != 0 || !bytes.Equal(rsp, b.ChassisStatus) || len(rsp) != 4 {
		t.Fatalf("Get Chassis Status: cc %#x %x", cc, rsp)
	}
	if cc, _ := c.cmd(0x00, 0x02, []byte{0x03}); cc != 0 || b.LastChassisControl != 3 || b.ChassisControls != 1 {
		t.Fatalf("Chassis Control: cc %#x last %d", cc, b.LastChassisControl)
	}
	if cc, rsp := c.cmd(0x04, 0x2D, []byte{0x30}); cc != 0 || !bytes.Equal(rsp, []byte{0x7B, 0xC0, 0x00}) {
		t.Fatalf("Get Sensor Reading: cc %#x %x", cc, rsp)
	}
	if cc, _ := c.cmd(0x04, 0x2D, []byte{0x31}); cc != 0xCB {
		t.Fatalf("Get Sensor Reading unknown: cc %#x", cc)
	}
	if cc, rsp := c.cmd(0x2C, 0x01, []byte{0xDC, 1}); cc != 0 || !bytes.Equal(rsp, []byte{0xDC, 1, 5, 2, 0, 1, 7}) {
		t.Fatalf("Get DCMI Capabilities Info: cc %#x %x", cc, rsp)
	}
	if ev := c.last(); ev.Message.Body != 0xDC || !bytes.Equal(ev.Message.Data, []byte{1}) {
		t.Fatalf("group extension event: %+v", ev.Message)
	}
	if cc, rsp := c.cmd(0x2C, 0x02, []byte{0xDC, 1, 0, 0}); cc != 0 || len(rsp) != 18 || rsp[0] != 0xDC {
		t.Fatalf("Get Power Reading: cc %#x %x", cc, rsp)
	}
	if cc, rsp := c.cmd(0x2C, 0x55, []byte{0xDC}); cc != 0xC1 || !bytes.Equal(rsp, []byte{0xDC}) {
		t.Fatalf("unknown DCMI command: cc %#x %x", cc, rsp)
	}
	for _, tc := range []struct {
		req  []byte
		want string
	}{
		{[]byte{0xDC, 1, 0x40, 0, 1}, "dc0a040a000b000c000d00"},
		{[]byte{0xDC, 1, 0x40, 0, 9}, "dc0a0212001300"},
		{[]byte{0xDC, 1, 0x40, 0, 11}, "dc0a00"},
		{[]byte{0xDC, 1, 0x40, 3, 0}, "dc0a010c00"},
		{[]byte{0xDC, 1, 0x41, 0, 1}, "dc0000"},
	} {
		if cc, rsp := c.cmd(0x2C, 0x07, tc.req); cc != 0 || hex.EncodeToString(rsp) != tc.want {
			t.Fatalf("Get DCMI Sensor Info %x: cc %#x %x, want %s", tc.req, cc, rsp, tc.want)
		}
	}

	// Close Session: unknown ID, then this session; the reply is still
	// protected, and the session is unusable afterwards.
	if cc, _ := c.cmd(0x06, 0x3C, []byte{1, 2, 3, 4}); cc != 0x87 {
		t.Fatalf("Close Session unknown: cc %#x, want 0x87", cc)
	}
	if cc, _ := c.cmd(0x06, 0x3C, le.AppendUint32(nil, c.bmcID)); cc != 0 || !b.Sessions()[0].Closed {
		t.Fatalf("Close Session: cc %#x", cc)
	}
	c.seq++
	if b.Handle(c.packet(c.seq, cRequest(0x06, 0, 1, 0x01, nil))) != nil || c.last().Reject != "session closed" {
		t.Fatalf("packet on a closed session: %+v", c.last())
	}
}

func TestCustomHandlerAndDeterminism(t *testing.T) {
	run := func() []sim.Event {
		_, c := newPair(t, 1, 1, nil)
		cfg := sim.Config{
			Users: []sim.User{{Name: "admin", Password: []byte("s3cret"), MaxPriv: 4}},
			Seed:  7, Suites: allSuites(),
			Commands: map[sim.CmdKey]sim.Handler{
				{NetFn: 0x06, Cmd: 0x01}: func(_ *sim.BMC, s *sim.Session, lun uint8, data []byte) (uint8, []byte) {
					return 0xC0, []byte{s.Priv, lun, uint8(len(data))}
				},
				{NetFn: 0x2E, Cmd: 0x10}: func(_ *sim.BMC, _ *sim.Session, _ uint8, data []byte) (uint8, []byte) {
					return 0, data
				},
			},
		}
		c.bmc = sim.New(cfg)
		c.establish()
		if cc, rsp := c.cmd(0x06, 0x01, []byte{9, 9}); cc != 0xC0 || !bytes.Equal(rsp, []byte{2, 0, 2}) {
			t.Fatalf("override: cc %#x %x", cc, rsp)
		}
		if cc, rsp := c.cmd(0x2E, 0x10, []byte{1, 2, 3}); cc != 0 || !bytes.Equal(rsp, []byte{1, 2, 3}) {
			t.Fatalf("extra handler: cc %#x %x", cc, rsp)
		}
		return c.bmc.Log
	}
	a, b := run(), run()
	if len(a) != 5 || len(a) != len(b) {
		t.Fatalf("log lengths %d, %d", len(a), len(b))
	}
	for i := range a {
		if !bytes.Equal(a[i].Reply, b[i].Reply) || a[i].Reply == nil {
			t.Fatalf("event %d: replies differ between identically seeded BMCs", i)
		}
	}
}

// TestBuildersMatchIndependentEncoders cross-checks the exported packet
// builders against the mini-client's encoders.
func TestBuildersMatchIndependentEncoders(t *testing.T) {
	if got := sim.Checksum([]byte{0x20, 0x18}); got != 0xC8 {
		t.Fatalf("Checksum = %#x, want 0xc8", got)
	}
	// Get Channel Authentication Capabilities as commonly captured on the wire.
	msg := sim.Message(0x20, 0x06, 0, 0x81, 1, 0, 0x38, []byte{0x8E, 0x04})
	if hex.EncodeToString(msg) != "2018c88104388e04b1" {
		t.Fatalf("Message = %x", msg)
	}
	if !bytes.Equal(msg, cRequest(0x06, 0, 1, 0x38, []byte{0x8E, 0x04})) {
		t.Fatal("Message differs from independent encoder")
	}
	if got := sim.SessionlessPacket(0x00, msg); !bytes.Equal(got, cWrap(0x00, 0, 0, msg, 0, nil)) ||
		hex.EncodeToString(got) != "0600ff07"+"0600"+"00000000"+"00000000"+"0900"+"2018c88104388e04b1" {
		t.Fatalf("SessionlessPacket = %x", got)
	}
	key := []byte("0123456789abcdefghijklmnopqrstuv")
	iv := []byte("ABCDEFGHIJKLMNOP")
	for n := 0; n < 40; n++ {
		payload := bytes.Repeat([]byte{0x5A}, n)
		for _, integ := range []uint8{1, 2, 4} {
			for auth := uint8(1); auth <= 3; auth++ {
				k := key[:map[uint8]int{1: 20, 2: 16, 3: 32}[auth]]
				got := sim.SessionPacket(0x01020304, 77, 0x00, payload, integ, k, 1, k, iv)
				want := cWrap(0xC0, 0x01020304, 77, cEncrypt(k, iv, payload), integ, k)
				if !bytes.Equal(got, want) {
					t.Fatalf("SessionPacket(n=%d integ=%d auth=%d)\n got %x\nwant %x", n, integ, auth, got, want)
				}
				if (len(got)-4-map[uint8]int{1: 12, 2: 16, 4: 16}[integ])%4 != 0 {
					t.Fatalf("AuthCode range not a multiple of 4: %d", len(got))
				}
				if !bytes.Equal(sim.IntegrityCode(integ, k, payload), cAuthCode(integ, k, payload)) ||
					!bytes.Equal(sim.HMAC(auth, k, payload), cHMAC(auth, k, payload)) {
					t.Fatal("IntegrityCode/HMAC differ from independent implementation")
				}
			}
		}
		got := sim.SessionPacket(5, 6, 0x00, payload, 0, nil, 0, nil, nil)
		if !bytes.Equal(got, cWrap(0x00, 5, 6, payload, 0, nil)) {
			t.Fatalf("SessionPacket plain n=%d: %x", n, got)
		}
		got = sim.SessionPacket(5, 6, 0x00, payload, 1, key[:20], 0, nil, nil)
		if !bytes.Equal(got, cWrap(0x40, 5, 6, payload, 1, key[:20])) {
			t.Fatalf("SessionPacket signed-only n=%d: %x", n, got)
		}
	}
}
