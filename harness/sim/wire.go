// Package sim is a simulated baseboard management controller (BMC) speaking
// IPMI v2.0 / RMCP+ over datagrams. It is a test fixture written from the IPMI
// v2.0 specification using only the Go standard library; it shares no code with
// the client library under test.
//
// This file holds the stateless wire-format builders and crypto helpers. They
// are exported so a test harness can forge packets independently of any BMC
// state.
package sim

import (
	"crypto/aes"
	"crypto/cipher"
	"crypto/hmac"
	"crypto/md5"
	"crypto/sha1"
	"crypto/sha256"
	"encoding/binary"
	"errors"
	"hash"
)

// RMCP+ payload types (low 6 bits of the payload type byte).
const (
	PayloadIPMI            uint8 = 0x00
	PayloadOpenSessionReq  uint8 = 0x10
	PayloadOpenSessionRsp  uint8 = 0x11
	PayloadRAKP1           uint8 = 0x12
	PayloadRAKP2           uint8 = 0x13
	PayloadRAKP3           uint8 = 0x14
	PayloadRAKP4           uint8 = 0x15
	payloadFlagEncrypted   uint8 = 0x80
	payloadFlagAuthentic   uint8 = 0x40
	payloadTypeMask        uint8 = 0x3F
	authTypeRMCPPlus       uint8 = 0x06
	nextHeader             uint8 = 0x07
	sessionHeaderLen             = 12 // auth type, payload type, session ID, sequence, length
	aesBlock                     = 16
	rmcpHeaderLen                = 4
	bmcSlaveAddress        uint8 = 0x20
	netFnGroupExtensionReq uint8 = 0x2C
)

// Authentication, integrity and confidentiality algorithm numbers.
const (
	AuthNone       uint8 = 0
	AuthHMACSHA1   uint8 = 1
	AuthHMACMD5    uint8 = 2
	AuthHMACSHA256 uint8 = 3

	IntegNone          uint8 = 0
	IntegHMACSHA1_96   uint8 = 1
	IntegHMACMD5_128   uint8 = 2
	IntegHMACSHA256128 uint8 = 4

	ConfNone      uint8 = 0
	ConfAESCBC128 uint8 = 1
)

// RMCP+ status codes used by the simulator.
const (
	StatusOK                    uint8 = 0x00
	StatusInsufficientResources uint8 = 0x01
	StatusInvalidSessionID      uint8 = 0x02
	StatusUnauthorizedName      uint8 = 0x0D
	StatusInvalidICV            uint8 = 0x0F
	StatusNoMatchingCipherSuite uint8 = 0x11
	StatusIllegalParameter      uint8 = 0x12
)

// IPMI completion codes used by the simulator.
const (
	CCOK                    uint8 = 0x00
	CCInvalidSessionID      uint8 = 0x87 // Close Session
	CCPrivilegeUnavailable  uint8 = 0x81 // Set Session Privilege Level
	CCInvalidCommand        uint8 = 0xC1
	CCReservationCancelled  uint8 = 0xC5
	CCRequestLengthInvalid  uint8 = 0xC7
	CCParameterOutOfRange   uint8 = 0xC9
	CCRequestedNotPresent   uint8 = 0xCB
	CCInvalidDataField      uint8 = 0xCC
	CCInsufficientPrivilege uint8 = 0xD4
)

// Suite is one cipher suite: an ID and its three algorithms. A non-zero
// OEMIANA makes it an OEM record in Get Channel Cipher Suites.
type Suite struct {
	ID                uint8
	Auth, Integ, Conf uint8
	OEMIANA           uint32 // 0 = standard record
}

// rmcpHeader is the fixed RMCP header preceding every IPMI datagram: version
// 6, reserved, sequence 0xFF (no ACK wanted), class 7 (IPMI).
var rmcpHeader = [rmcpHeaderLen]byte{0x06, 0x00, 0xFF, 0x07}

// Checksum returns the IPMI two's complement checksum of b: the value that
// makes the 8-bit sum of b and the checksum equal zero.
func Checksum(b []byte) uint8 {
	var sum uint8
	for _, v := range b {
		sum += v
	}
	return -sum
}

// Message builds an IPMI LAN message, computing both checksums. The first
// address/LUN pair is the destination (rsAddr/rsLUN for a request, rqAddr/rqLUN
// for a response) and the second is the source. For a response, netFn is the
// odd response netFn and the caller puts the completion code first in data.
// For group-extension netFns the caller includes the body code in data.
func Message(rsAddr, netFn, rsLUN, rqAddr, rqSeq, rqLUN, cmd uint8, data []byte) []byte {
	m := make([]byte, 0, 7+len(data))
	m = append(m, rsAddr, netFn<<2|rsLUN&0x3)
	m = append(m, Checksum(m))
	m = append(m, rqAddr, rqSeq<<2|rqLUN&0x3, cmd)
	m = append(m, data...)
	m = append(m, Checksum(m[3:]))
	return m
}

func hashFor(auth uint8) func() hash.Hash {
	switch auth {
	case AuthHMACSHA1:
		return sha1.New
	case AuthHMACMD5:
		return md5.New
	case AuthHMACSHA256:
		return sha256.New
	}
	return nil
}

// HMAC returns the untruncated HMAC of msg under key using the hash of the
// given authentication algorithm (1 SHA1, 2 MD5, 3 SHA256). For any other
// algorithm (including 0, none) it returns nil.
func HMAC(auth uint8, key, msg []byte) []byte {
	h := hashFor(auth)
	if h == nil {
		return nil
	}
	m := hmac.New(h, key)
	m.Write(msg)
	return m.Sum(nil)
}

// integrityLen returns the AuthCode length of an integrity algorithm, or -1
// if the algorithm is unknown.
func integrityLen(integ uint8) int {
	switch integ {
	case IntegNone:
		return 0
	case IntegHMACSHA1_96:
		return 12
	case IntegHMACMD5_128, IntegHMACSHA256128:
		return 16
	}
	return -1
}

// IntegrityCode returns the AuthCode of msg under k1 for the given integrity
// algorithm: 1 HMAC-SHA1-96 (12 bytes), 2 HMAC-MD5-128 (16 bytes),
// 4 HMAC-SHA256-128 (16 bytes). It returns nil for any other algorithm.
func IntegrityCode(integ uint8, k1, msg []byte) []byte {
	switch integ {
	case IntegHMACSHA1_96:
		return HMAC(AuthHMACSHA1, k1, msg)[:12]
	case IntegHMACMD5_128:
		return HMAC(AuthHMACMD5, k1, msg)
	case IntegHMACSHA256128:
		return HMAC(AuthHMACSHA256, k1, msg)[:16]
	}
	return nil
}

// icvLen is the length RAKP 4's integrity check value is truncated to.
func icvLen(auth uint8) int {
	switch auth {
	case AuthHMACSHA1:
		return 12
	case AuthHMACMD5, AuthHMACSHA256:
		return 16
	}
	return 0
}

// aesKey returns the AES-128 key derived from K2: its first 16 bytes,
// zero-extended in the (forged-packet) case that fewer were supplied.
func aesKey(k2 []byte) []byte {
	key := make([]byte, aesBlock)
	copy(key, k2)
	return key
}

// EncryptAES produces an AES-CBC-128 confidentiality payload: the 16-byte IV
// followed by the encryption of data, pad bytes 01 02 .. n and the pad length
// n, with n in 0..15. The IV is zero-extended or truncated to 16 bytes.
func EncryptAES(k2, iv, data []byte) []byte {
	n := (aesBlock - (len(data)+1)%aesBlock) % aesBlock
	out := make([]byte, aesBlock, aesBlock+len(data)+n+1)
	copy(out, iv)
	out = append(out, data...)
	for i := 1; i <= n; i++ {
		out = append(out, uint8(i))
	}
	out = append(out, uint8(n))
	EncryptAESRaw(k2, out)
	return out
}

// EncryptAESRaw encrypts ivAndPlain[16:] in place with AES-128-CBC, using
// ivAndPlain[:16] as the IV. No padding is added; the plaintext length must be
// a multiple of 16. It lets a harness forge payloads with a malformed pad.
func EncryptAESRaw(k2, ivAndPlain []byte) {
	c, err := aes.NewCipher(aesKey(k2))
	if err != nil {
		panic(err) // unreachable: the key is always 16 bytes
	}
	body := ivAndPlain[aesBlock:]
	cipher.NewCBCEncrypter(c, ivAndPlain[:aesBlock]).CryptBlocks(body, body)
}

var (
	errAESLength    = errors.New("bad encrypted payload length")
	errAESPadLength = errors.New("bad AES pad length")
	errAESPad       = errors.New("bad AES pad bytes")
)

// DecryptAES reverses EncryptAES, verifying the confidentiality trailer. It
// returns the payload data and the IV.
func DecryptAES(k2, payload []byte) (data, iv []byte, err error) {
	if len(payload) < 2*aesBlock || len(payload)%aesBlock != 0 {
		return nil, nil, errAESLength
	}
	c, err := aes.NewCipher(aesKey(k2))
	if err != nil {
		return nil, nil, err
	}
	iv = append([]byte(nil), payload[:aesBlock]...)
	plain := make([]byte, len(payload)-aesBlock)
	cipher.NewCBCDecrypter(c, iv).CryptBlocks(plain, payload[aesBlock:])
	n := int(plain[len(plain)-1])
	if n > aesBlock-1 {
		return nil, iv, errAESPadLength
	}
	padStart := len(plain) - 1 - n
	for i := 0; i < n; i++ {
		if plain[padStart+i] != uint8(i+1) {
			return nil, iv, errAESPad
		}
	}
	return plain[:padStart], iv, nil
}

// integrityPad returns the number of 0xFF integrity pad bytes needed after a
// payload of the given wire length so that the AuthCode range (session header
// through next header) is a multiple of 4 bytes.
func integrityPad(wirePayloadLen int) int {
	return (4 - (sessionHeaderLen+wirePayloadLen+2)%4) % 4
}

// SessionPacket builds a complete datagram, RMCP header included, carrying
// payload in an RMCP+ session wrapper. The packet is authenticated iff integ
// != 0 (AuthCode keyed with k1) and encrypted iff conf == 1 (AES-CBC-128 keyed
// with the first 16 bytes of k2, using iv).
func SessionPacket(sessID, seq uint32, payloadType uint8, payload []byte, integ uint8, k1 []byte, conf uint8, k2 []byte, iv []byte) []byte {
	ptype := payloadType & payloadTypeMask
	if conf == ConfAESCBC128 {
		payload = EncryptAES(k2, iv, payload)
		ptype |= payloadFlagEncrypted
	}
	if integ != IntegNone {
		ptype |= payloadFlagAuthentic
	}
	return WrapRaw(ptype, sessID, seq, payload, integ, k1)
}

// WrapRaw builds a complete datagram from an already encoded (and, if the
// encrypted flag is set in payloadTypeByte, already encrypted) payload. The
// payload type byte is used verbatim, flags included. The integrity trailer is
// appended iff integ != 0.
func WrapRaw(payloadTypeByte uint8, sessID, seq uint32, wirePayload []byte, integ uint8, k1 []byte) []byte {
	p := make([]byte, 0, rmcpHeaderLen+sessionHeaderLen+len(wirePayload)+5+16)
	p = append(p, rmcpHeader[:]...)
	p = append(p, authTypeRMCPPlus, payloadTypeByte)
	p = binary.LittleEndian.AppendUint32(p, sessID)
	p = binary.LittleEndian.AppendUint32(p, seq)
	p = binary.LittleEndian.AppendUint16(p, uint16(len(wirePayload)))
	p = append(p, wirePayload...)
	if integ == IntegNone {
		return p
	}
	pad := integrityPad(len(wirePayload))
	for i := 0; i < pad; i++ {
		p = append(p, 0xFF)
	}
	p = append(p, uint8(pad), nextHeader)
	return append(p, IntegrityCode(integ, k1, p[rmcpHeaderLen:])...)
}

// SessionlessPacket builds a complete datagram carrying payload outside a
// session: session ID 0, sequence 0, neither authenticated nor encrypted.
func SessionlessPacket(payloadType uint8, payload []byte) []byte {
	return WrapRaw(payloadType&payloadTypeMask, 0, 0, payload, IntegNone, nil)
}

// EncodeCipherSuiteRecords encodes suites as Get Channel Cipher Suites record
// data. A standard record is C0 id auth integ conf; an OEM record (OEMIANA !=
// 0) is C1 id iana(3 bytes LE) auth integ conf. The algorithm bytes carry the
// tag bits 00 (authentication), 01 (integrity), 10 (confidentiality) in [7:6].
func EncodeCipherSuiteRecords(s []Suite) []byte {
	var out []byte
	for _, cs := range s {
		if cs.OEMIANA == 0 {
			out = append(out, 0xC0, cs.ID)
		} else {
			out = append(out, 0xC1, cs.ID,
				uint8(cs.OEMIANA), uint8(cs.OEMIANA>>8), uint8(cs.OEMIANA>>16))
		}
		out = append(out, cs.Auth&0x3F, 0x40|cs.Integ&0x3F, 0x80|cs.Conf&0x3F)
	}
	return out
}

// algorithmPayload encodes one 8-byte Open Session algorithm payload.
func algorithmPayload(kind, algorithm uint8) []byte {
	return []byte{kind, 0, 0, 8, algorithm & 0x3F, 0, 0, 0}
}

// keyPad20 zero-pads (or truncates) a password or K_G to the 20 bytes IPMI
// stores.
func keyPad20(k []byte) []byte {
	out := make([]byte, 20)
	copy(out, k)
	return out
}

func repeat(v uint8, n int) []byte {
	out := make([]byte, n)
	for i := range out {
		out[i] = v
	}
	return out
}

func clone(b []byte) []byte {
	if b == nil {
		return nil
	}
	return append([]byte{}, b...)
}
