package sim

import (
	"bytes"
	"crypto/hmac"
	"encoding/binary"
	"encoding/hex"
	"fmt"
	"math/rand"
)

// User is one account configured on the BMC.
type User struct {
	Name     string
	Password []byte
	MaxPriv  uint8
}

// CmdKey identifies a command: the request netFn, the command number and, for
// the group-extension netFn 0x2C, the body code (0 otherwise).
type CmdKey struct {
	NetFn uint8
	Cmd   uint8
	Body  uint8
}

// Handler executes one command. sess is nil outside a session. data is the
// request data and rsp the response data, both excluding the completion code
// and the group-extension body code (the BMC strips and echoes the latter).
type Handler func(b *BMC, sess *Session, lun uint8, data []byte) (cc uint8, rsp []byte)

// Config is the static configuration of a simulated BMC.
type Config struct {
	Users              []User
	KG                 []byte // nil/empty = not set
	GUID               [16]byte
	Seed               int64 // all BMC randomness (R_C, session IDs, IVs) derives from this
	Suites             []Suite
	CipherSuiteRecords []byte // if non-nil, served verbatim instead of encoding Suites
	Commands           map[CmdKey]Handler
}

// Session is the BMC's view of one RMCP+ session, from Open Session onwards.
type Session struct {
	ConsoleID, BMCID  uint32
	Auth, Integ, Conf uint8
	SIK, K1, K2       []byte
	Rm, Rc            [16]byte
	Role              uint8  // entire role byte of RAKP 1
	User              string // user name of RAKP 1
	Priv              uint8  // current privilege level
	Active            bool   // RAKP 3 verified
	HighestSeq        uint32 // highest inbound sequence number accepted
	OutSeq            uint32 // last outbound sequence number used
	Closed            bool   // closed by Close Session, or dropped after a failed RAKP 3

	openPriv  uint8  // max privilege of the Open Session Request
	maxPriv   uint8  // privilege ceiling: min(requested role, user's limit)
	userID    uint8  // 1-based index into Config.Users
	password  []byte // password in effect when RAKP 1 was processed
	haveRAKP1 bool
	seenBelow uint32 // bit i set: sequence number HighestSeq-1-i already accepted
}

// seqAcceptable implements the inbound sliding window: up to 16 ahead of the
// highest accepted number, or up to 8 behind it if not seen before. Sequence
// number 0 is reserved for packets outside a session. Wrap-around is not
// modelled.
func (s *Session) seqAcceptable(seq uint32) bool {
	if seq == 0 {
		return false
	}
	if seq > s.HighestSeq {
		return seq-s.HighestSeq <= 16
	}
	d := s.HighestSeq - seq
	return d >= 1 && d <= 8 && s.seenBelow&(1<<(d-1)) == 0
}

func (s *Session) seqCommit(seq uint32) {
	if seq > s.HighestSeq {
		shift := seq - s.HighestSeq
		s.seenBelow = (s.seenBelow<<shift | 1<<(shift-1)) & 0xFF
		s.HighestSeq = seq
		return
	}
	s.seenBelow |= 1 << (s.HighestSeq - seq - 1)
}

// MessageInfo is a decoded IPMI request message.
type MessageInfo struct {
	RsAddr, NetFn, RsLUN, RqAddr, RqSeq, RqLUN, Cmd, Body uint8
	Data                                                  []byte // excludes the body code
}

// Event records one datagram handed to Handle.
type Event struct {
	Raw                      []byte
	Kind                     string // "opensession","rakp1","rakp3","ipmi-sessionless","ipmi-session","invalid"
	SessionID, Seq           uint32
	PayloadType              uint8
	Authenticated, Encrypted bool
	Accepted                 bool   // passed every check the BMC applies
	Reject                   string // why not accepted ("" if accepted)
	InOrder                  bool   // seq == previous highest + 1
	IVHex                    string // IV of an encrypted packet
	Message                  MessageInfo
	Payload                  []byte // decrypted/plain payload bytes
	CC                       uint8  // completion code / RMCP+ status returned
	RspData                  []byte // response data after the completion code (incl. echoed body code)
	Reply                    []byte // datagram sent back (nil if dropped)
}

// SDRRecord is one record of the SDR repository. Data is the full record
// including the 5-byte header (ID LE16, 0x51, type, remaining length).
type SDRRecord struct {
	ID   uint16
	Data []byte
}

// BMC is a simulated BMC. It is not safe for concurrent use; give each
// goroutine its own value. Exported fields may be changed between calls to
// Handle.
type BMC struct {
	Log []Event

	// BareCC, when non-zero: every response consists of this completion code only (no echoed body code either)
	BareCC uint8

	// ForceCC, when non-zero, replaces the completion code of every response; the response data stays
	ForceCC uint8

	// NextSessionID, when non-zero, is the managed system session ID given to the next session (then incremented);
	// zero: random IDs
	NextSessionID uint32

	GUID               [16]byte
	DeviceID           []byte // Get Device ID response data
	ChassisStatus      []byte // Get Chassis Status response data
	LastChassisControl uint8  // low nibble of the last Chassis Control request
	ChassisControls    int    // number of Chassis Control requests executed
	PowerReading       []byte // Get Power Reading response data after the body code
	Sensors            map[uint8][]byte
	DCMICaps           map[uint8][]byte
	DCMISensors        map[uint8][]uint16 // entity ID -> record IDs
	DCMIPageSize       int                // max record IDs per Get DCMI Sensor Info response
	DCMIOvercount      int                // added to the instance total the BMC reports (it then serves fewer than it announces)

	SDRs                []SDRRecord
	AdditionTS, EraseTS uint32

	// Sessionless lists the commands executed outside a session; all others
	// complete with 0xD4 there. It applies to built-ins and overrides alike.
	Sessionless map[CmdKey]bool
	// MaxSessions, if positive, caps the number of sessions that are open
	// (created and not closed); further Open Session Requests get status 1.
	MaxSessions int

	// Misbehaviour knobs. A non-nil OverridePassword replaces every user's
	// password and a non-nil OverrideKG replaces Config.KG (empty = no K_G),
	// simulating a mismatch with what the console believes.
	OverridePassword []byte
	OverrideKG       []byte

	// Intercept, if set, is consulted before any command handler; when it
	// reports handled the given completion code and data are returned.
	Intercept func(key CmdKey, sess *Session, lun uint8, data []byte) (handled bool, cc uint8, rsp []byte)

	cfg         Config
	rng         *rand.Rand
	sessions    []*Session
	byID        map[uint32]*Session
	builtins    map[CmdKey]Handler
	reservation uint16
	reserved    bool
}

// New creates a BMC with default inventory data.
func New(cfg Config) *BMC {
	b := &BMC{
		GUID: cfg.GUID,
		DeviceID: []byte{
			0x20,             // device ID
			0x81,             // device revision 1, provides device SDRs
			0x02,             // firmware major revision 2
			0x15,             // firmware minor revision 15 (BCD)
			0x02,             // IPMI version 2.0
			0xBF,             // additional device support
			0xA2, 0x02, 0x00, // manufacturer ID 674
			0x00, 0x01, // product ID 0x0100
			0x00, 0x00, 0x00, 0x00, // auxiliary firmware revision
		},
		ChassisStatus: []byte{0x21, 0x00, 0x00, 0x00},
		PowerReading: []byte{
			0xC8, 0x00, // current 200 W
			0x64, 0x00, // minimum 100 W
			0x2C, 0x01, // maximum 300 W
			0xC8, 0x00, // average 200 W
			0x00, 0x00, 0x00, 0x60, // timestamp
			0xE8, 0x03, 0x00, 0x00, // reporting period 1000 ms
			0x40, // power measurement active
		},
		Sensors:      map[uint8][]byte{},
		DCMICaps:     map[uint8][]byte{},
		DCMISensors:  map[uint8][]uint16{},
		DCMIPageSize: 8,
		Sessionless: map[CmdKey]bool{
			{NetFn: 0x06, Cmd: 0x38}: true,
			{NetFn: 0x06, Cmd: 0x54}: true,
			{NetFn: 0x06, Cmd: 0x37}: true,
		},
		cfg:  cfg,
		rng:  rand.New(rand.NewSource(cfg.Seed)),
		byID: map[uint32]*Session{},
	}
	b.builtins = builtinHandlers()
	return b
}

// Sessions returns all sessions ever created, in creation order.
func (b *BMC) Sessions() []*Session {
	return append([]*Session(nil), b.sessions...)
}

func (b *BMC) random16() (r [16]byte) {
	b.rng.Read(r[:])
	return r
}

func (b *BMC) kg() []byte {
	if b.OverrideKG != nil {
		return b.OverrideKG
	}
	return b.cfg.KG
}

// Handle processes one datagram and returns the datagram to send back, or nil
// if the packet is silently dropped.
func (b *BMC) Handle(datagram []byte) []byte {
	ev := Event{Raw: clone(datagram), Kind: "invalid"}
	reply := b.handle(ev.Raw, &ev)
	ev.Accepted = ev.Reject == ""
	ev.Reply = clone(reply)
	b.Log = append(b.Log, ev)
	return reply
}

func (b *BMC) handle(d []byte, ev *Event) []byte {
	if len(d) < rmcpHeaderLen || !bytes.Equal(d[:rmcpHeaderLen], rmcpHeader[:]) {
		ev.Reject = "bad RMCP header"
		return nil
	}
	w := d[rmcpHeaderLen:] // session wrapper
	if len(w) < sessionHeaderLen {
		ev.Reject = "truncated session header"
		return nil
	}
	if w[0] != authTypeRMCPPlus {
		ev.Reject = fmt.Sprintf("auth type %#02x is not RMCP+", w[0])
		return nil
	}
	ev.Encrypted = w[1]&payloadFlagEncrypted != 0
	ev.Authenticated = w[1]&payloadFlagAuthentic != 0
	ev.PayloadType = w[1] & payloadTypeMask
	ev.SessionID = binary.LittleEndian.Uint32(w[2:6])
	ev.Seq = binary.LittleEndian.Uint32(w[6:10])
	plen := int(binary.LittleEndian.Uint16(w[10:12]))
	if len(w) < sessionHeaderLen+plen {
		ev.Reject = "truncated payload"
		return nil
	}
	payload := w[sessionHeaderLen : sessionHeaderLen+plen]
	trailer := w[sessionHeaderLen+plen:]

	if ev.SessionID != 0 {
		return b.handleInSession(w, payload, trailer, ev)
	}

	switch ev.PayloadType {
	case PayloadOpenSessionReq:
		ev.Kind = "opensession"
	case PayloadRAKP1:
		ev.Kind = "rakp1"
	case PayloadRAKP3:
		ev.Kind = "rakp3"
	case PayloadIPMI:
		ev.Kind = "ipmi-sessionless"
	default:
		ev.Reject = fmt.Sprintf("unexpected payload type %#02x", ev.PayloadType)
		return nil
	}
	switch {
	case ev.Authenticated || ev.Encrypted:
		ev.Reject = "authenticated/encrypted flag set outside a session"
	case ev.Seq != 0:
		ev.Reject = "non-zero sequence number outside a session"
	case len(trailer) != 0:
		ev.Reject = "trailing bytes after payload"
	}
	if ev.Reject != "" {
		return nil
	}
	ev.Payload = clone(payload)
	switch ev.PayloadType {
	case PayloadOpenSessionReq:
		return b.handleOpenSession(payload, ev)
	case PayloadRAKP1:
		return b.handleRAKP1(payload, ev)
	case PayloadRAKP3:
		return b.handleRAKP3(payload, ev)
	}
	rsp := b.handleMessage(nil, payload, ev)
	if rsp == nil {
		return nil
	}
	return SessionlessPacket(PayloadIPMI, rsp)
}

// handleInSession validates and executes a packet addressed to a session.
func (b *BMC) handleInSession(w, payload, trailer []byte, ev *Event) []byte {
	if ev.PayloadType != PayloadIPMI {
		ev.Reject = fmt.Sprintf("unexpected payload type %#02x in a session", ev.PayloadType)
		return nil
	}
	ev.Kind = "ipmi-session"
	s := b.byID[ev.SessionID]
	switch {
	case s == nil:
		ev.Reject = "unknown session"
	case s.Closed:
		ev.Reject = "session closed"
	case !s.Active:
		ev.Reject = "session not active"
	case ev.Authenticated != (s.Integ != IntegNone):
		ev.Reject = "authenticated flag does not match negotiated integrity algorithm"
	case ev.Encrypted != (s.Conf == ConfAESCBC128):
		ev.Reject = "encrypted flag does not match negotiated confidentiality algorithm"
	case !s.seqAcceptable(ev.Seq):
		ev.Reject = "sequence number outside window or replayed"
	}
	if ev.Reject != "" {
		return nil
	}

	// Integrity: the AuthCode is checked first; the pad, pad length and next
	// header it covers are then checked for well-formedness.
	if ev.Authenticated {
		codeLen := integrityLen(s.Integ)
		if len(trailer) < 2+codeLen {
			ev.Reject = "truncated integrity trailer"
			return nil
		}
		signed := w[:len(w)-codeLen]
		if !hmac.Equal(w[len(w)-codeLen:], IntegrityCode(s.Integ, s.K1, signed)) {
			ev.Reject = "bad AuthCode"
			return nil
		}
	} else if len(trailer) != 0 {
		ev.Reject = "trailing bytes after payload"
		return nil
	}
	// The packet is authentic (as far as the session can tell), so its
	// sequence number is consumed even if a later check fails.
	ev.InOrder = ev.Seq == s.HighestSeq+1
	s.seqCommit(ev.Seq)
	if ev.Authenticated {
		codeLen := integrityLen(s.Integ)
		pad := trailer[:len(trailer)-codeLen-2]
		padLen := trailer[len(trailer)-codeLen-2]
		switch {
		case trailer[len(trailer)-codeLen-1] != nextHeader:
			ev.Reject = "next header is not 0x07"
		case int(padLen) != len(pad):
			ev.Reject = "integrity pad length byte does not match pad"
		case len(pad) != integrityPad(len(payload)):
			ev.Reject = "wrong number of integrity pad bytes"
		case !bytes.Equal(pad, repeat(0xFF, len(pad))):
			ev.Reject = "integrity pad byte is not 0xFF"
		}
		if ev.Reject != "" {
			return nil
		}
	}

	if ev.Encrypted {
		data, iv, err := DecryptAES(s.K2, payload)
		ev.IVHex = hex.EncodeToString(iv)
		if err != nil {
			ev.Reject = err.Error()
			return nil
		}
		payload = data
	}
	ev.Payload = clone(payload)

	rsp := b.handleMessage(s, payload, ev)
	if rsp == nil {
		return nil
	}
	s.OutSeq++
	iv := b.ivFor(s)
	return SessionPacket(s.ConsoleID, s.OutSeq, PayloadIPMI, rsp, s.Integ, s.K1, s.Conf, s.K2, iv)
}

func (b *BMC) ivFor(s *Session) []byte {
	if s.Conf != ConfAESCBC128 {
		return nil
	}
	iv := b.random16()
	return iv[:]
}

// handleMessage decodes an IPMI request message, executes it and returns the
// encoded response message, or nil if the request is dropped.
func (b *BMC) handleMessage(s *Session, m []byte, ev *Event) []byte {
	if len(m) < 7 {
		ev.Reject = "IPMI message shorter than 7 bytes"
		return nil
	}
	msg := &ev.Message
	msg.RsAddr, msg.NetFn, msg.RsLUN = m[0], m[1]>>2, m[1]&0x3
	msg.RqAddr, msg.RqSeq, msg.RqLUN = m[3], m[4]>>2, m[4]&0x3
	msg.Cmd = m[5]
	data := m[6 : len(m)-1]
	switch {
	case m[2] != Checksum(m[:2]):
		ev.Reject = "bad checksum 1"
	case m[len(m)-1] != Checksum(m[3:len(m)-1]):
		ev.Reject = "bad checksum 2"
	case msg.RsAddr != bmcSlaveAddress:
		ev.Reject = "rsAddr is not 0x20"
	case msg.NetFn&1 != 0:
		ev.Reject = "netFn is a response netFn"
	}
	if ev.Reject != "" {
		msg.Data = clone(data)
		return nil
	}

	var echo []byte // addressing extension echoed after the completion code
	if msg.NetFn == netFnGroupExtensionReq {
		if len(data) == 0 {
			ev.CC = CCRequestLengthInvalid
			return b.response(msg, ev.CC, nil)
		}
		msg.Body = data[0]
		echo = data[:1]
		data = data[1:]
	}
	msg.Data = clone(data)

	key := CmdKey{NetFn: msg.NetFn, Cmd: msg.Cmd, Body: msg.Body}
	h := b.cfg.Commands[key]
	if h == nil {
		h = b.builtins[key]
	}
	var rsp []byte
	if b.BareCC != 0 {
		ev.CC = b.BareCC
		ev.RspData = nil
		return b.response(msg, ev.CC, nil)
	}
	if b.Intercept != nil {
		if handled, cc, r := b.Intercept(key, s, msg.RsLUN, clone(data)); handled {
			ev.CC = cc
			ev.RspData = append(clone(echo), r...)
			return b.response(msg, ev.CC, append(clone(echo), r...))
		}
	}
	switch {
	case h == nil:
		ev.CC = CCInvalidCommand
	case s == nil && !b.Sessionless[key]:
		ev.CC = CCInsufficientPrivilege
	default:
		ev.CC, rsp = h(b, s, msg.RsLUN, clone(data))
	}
	if b.ForceCC != 0 {
		// the genuine response data under another completion code (a BMC need not truncate a refused command's response)
		ev.CC = b.ForceCC
	}
	ev.RspData = append(clone(echo), rsp...)
	return b.response(msg, ev.CC, append(clone(echo), rsp...))
}

func (b *BMC) response(req *MessageInfo, cc uint8, data []byte) []byte {
	return Message(req.RqAddr, req.NetFn+1, req.RqLUN, req.RsAddr, req.RqSeq, req.RsLUN,
		req.Cmd, append([]byte{cc}, data...))
}

// setupError builds the 8-byte error form shared by the Open Session Response
// and RAKP 2/4: tag | status | 2 reserved | console session ID.
func setupError(payloadType, tag, status uint8, consoleID uint32, ev *Event) []byte {
	ev.CC = status
	p := []byte{tag, status, 0, 0}
	p = binary.LittleEndian.AppendUint32(p, consoleID)
	return SessionlessPacket(payloadType, p)
}

func (b *BMC) suiteSupported(auth, integ, conf uint8) bool {
	for _, s := range b.cfg.Suites {
		if s.Auth == auth && s.Integ == integ && s.Conf == conf {
			return true
		}
	}
	return false
}

func (b *BMC) openSessions() int {
	n := 0
	for _, s := range b.sessions {
		if !s.Closed {
			n++
		}
	}
	return n
}

func (b *BMC) handleOpenSession(p []byte, ev *Event) []byte {
	if len(p) < 8 {
		ev.Reject = "Open Session Request shorter than 8 bytes"
		return nil
	}
	tag, priv := p[0], p[1]&0x0F
	consoleID := binary.LittleEndian.Uint32(p[4:8])
	fail := func(status uint8) []byte {
		return setupError(PayloadOpenSessionRsp, tag, status, consoleID, ev)
	}
	if len(p) != 32 || priv > 5 {
		return fail(StatusIllegalParameter)
	}
	var alg [3]uint8
	for i := range alg {
		ap := p[8+8*i : 16+8*i]
		if ap[0] != uint8(i) {
			return fail(StatusIllegalParameter)
		}
		if ap[3] != 8 { // wildcard (length 0) requests are not supported
			return fail(StatusNoMatchingCipherSuite)
		}
		alg[i] = ap[4] & 0x3F
	}
	if !b.suiteSupported(alg[0], alg[1], alg[2]) {
		return fail(StatusNoMatchingCipherSuite)
	}
	if b.MaxSessions > 0 && b.openSessions() >= b.MaxSessions {
		return fail(StatusInsufficientResources)
	}
	if priv == 0 { // "highest level matching the proposed algorithms"
		priv = 4
	}
	s := &Session{
		ConsoleID: consoleID,
		Auth:      alg[0], Integ: alg[1], Conf: alg[2],
		openPriv: priv,
	}
	if b.NextSessionID != 0 && b.byID[b.NextSessionID] == nil {
		// a BMC that numbers its sessions from a fixed value (many start at 1, the value the console uses too)
		s.BMCID = b.NextSessionID
		b.NextSessionID++
	}
	for s.BMCID == 0 || b.byID[s.BMCID] != nil {
		s.BMCID = b.rng.Uint32()
	}
	b.sessions = append(b.sessions, s)
	b.byID[s.BMCID] = s

	rsp := []byte{tag, StatusOK, priv, 0}
	rsp = binary.LittleEndian.AppendUint32(rsp, s.ConsoleID)
	rsp = binary.LittleEndian.AppendUint32(rsp, s.BMCID)
	for i, a := range alg {
		rsp = append(rsp, algorithmPayload(uint8(i), a)...)
	}
	return SessionlessPacket(PayloadOpenSessionRsp, rsp)
}

// findUser returns the 1-based index of the user matching a RAKP 1 role byte
// and name, or 0.
func (b *BMC) findUser(role uint8, name string) int {
	nameOnly := role&0x10 != 0
	for i, u := range b.cfg.Users {
		if u.Name == name && (nameOnly || u.MaxPriv >= role&0x0F) {
			return i + 1
		}
	}
	return 0
}

func (b *BMC) handleRAKP1(p []byte, ev *Event) []byte {
	if len(p) < 8 {
		ev.Reject = "RAKP Message 1 shorter than 8 bytes"
		return nil
	}
	tag := p[0]
	s := b.byID[binary.LittleEndian.Uint32(p[4:8])]
	if s == nil || s.Closed || s.Active {
		return setupError(PayloadRAKP2, tag, StatusInvalidSessionID, 0, ev)
	}
	fail := func(status uint8) []byte {
		return setupError(PayloadRAKP2, tag, status, s.ConsoleID, ev)
	}
	if len(p) < 28 || int(p[27]) > 16 || len(p) != 28+int(p[27]) {
		return fail(StatusIllegalParameter)
	}
	role, name := p[24], string(p[28:])
	uid := b.findUser(role, name)
	if uid == 0 {
		return fail(StatusUnauthorizedName)
	}
	u := b.cfg.Users[uid-1]
	// A retransmitted RAKP 1 gets the same R_C; anything else restarts the
	// exchange with a fresh one.
	if !s.haveRAKP1 || !bytes.Equal(s.Rm[:], p[8:24]) || s.Role != role || s.User != name {
		s.Rc = b.random16()
	}
	copy(s.Rm[:], p[8:24])
	s.Role, s.User, s.userID = role, name, uint8(uid)
	s.maxPriv = u.MaxPriv
	for _, limit := range []uint8{role & 0x0F, s.openPriv} {
		if limit != 0 && limit < s.maxPriv {
			s.maxPriv = limit
		}
	}
	s.password = u.Password
	if b.OverridePassword != nil {
		s.password = b.OverridePassword
	}
	s.password = clone(s.password)
	s.haveRAKP1 = true

	// SID_M | SID_C | R_M | R_C | GUID_C | Role_M | ULength_M | UName_M
	var msg []byte
	msg = binary.LittleEndian.AppendUint32(msg, s.ConsoleID)
	msg = binary.LittleEndian.AppendUint32(msg, s.BMCID)
	msg = append(msg, s.Rm[:]...)
	msg = append(msg, s.Rc[:]...)
	msg = append(msg, b.GUID[:]...)
	msg = append(msg, role, uint8(len(name)))
	msg = append(msg, name...)

	rsp := []byte{tag, StatusOK, 0, 0}
	rsp = binary.LittleEndian.AppendUint32(rsp, s.ConsoleID)
	rsp = append(rsp, s.Rc[:]...)
	rsp = append(rsp, b.GUID[:]...)
	rsp = append(rsp, HMAC(s.Auth, keyPad20(s.password), msg)...)
	return SessionlessPacket(PayloadRAKP2, rsp)
}

func (b *BMC) handleRAKP3(p []byte, ev *Event) []byte {
	if len(p) < 8 {
		ev.Reject = "RAKP Message 3 shorter than 8 bytes"
		return nil
	}
	tag, status := p[0], p[1]
	s := b.byID[binary.LittleEndian.Uint32(p[4:8])]
	// A retransmitted RAKP 3 is answered again until in-session traffic starts.
	if s == nil || s.Closed || (s.Active && s.HighestSeq != 0) {
		return setupError(PayloadRAKP4, tag, StatusInvalidSessionID, 0, ev)
	}
	if status != StatusOK {
		// The console is reporting that it rejected RAKP 2: the session is
		// discarded without a reply.
		s.Closed = true
		return nil
	}
	if !s.haveRAKP1 {
		s.Closed = true
		return setupError(PayloadRAKP4, tag, StatusIllegalParameter, s.ConsoleID, ev)
	}
	roleName := append([]byte{s.Role, uint8(len(s.User))}, s.User...)

	// R_C | SID_M | Role_M | ULength_M | UName_M
	msg := append([]byte{}, s.Rc[:]...)
	msg = binary.LittleEndian.AppendUint32(msg, s.ConsoleID)
	msg = append(msg, roleName...)
	if !hmac.Equal(p[8:], HMAC(s.Auth, keyPad20(s.password), msg)) {
		s.Closed = true
		return setupError(PayloadRAKP4, tag, StatusInvalidICV, s.ConsoleID, ev)
	}

	// SIK = HMAC_KG(R_M | R_C | Role_M | ULength_M | UName_M)
	sikKey := keyPad20(s.password)
	if kg := b.kg(); len(kg) != 0 {
		sikKey = keyPad20(kg)
	}
	msg = append([]byte{}, s.Rm[:]...)
	msg = append(msg, s.Rc[:]...)
	msg = append(msg, roleName...)
	s.SIK = HMAC(s.Auth, sikKey, msg)
	s.K1 = HMAC(s.Auth, s.SIK, repeat(0x01, 20))
	s.K2 = HMAC(s.Auth, s.SIK, repeat(0x02, 20))
	s.Active = true
	s.Priv = 2 // sessions start at User level...
	if s.maxPriv < s.Priv {
		s.Priv = s.maxPriv // ...unless limited to Callback
	}

	// ICV = HMAC_SIK(R_M | SID_C | GUID_C), truncated
	msg = append([]byte{}, s.Rm[:]...)
	msg = binary.LittleEndian.AppendUint32(msg, s.BMCID)
	msg = append(msg, b.GUID[:]...)
	rsp := []byte{tag, StatusOK, 0, 0}
	rsp = binary.LittleEndian.AppendUint32(rsp, s.ConsoleID)
	if icv := HMAC(s.Auth, s.SIK, msg); icv != nil {
		rsp = append(rsp, icv[:icvLen(s.Auth)]...)
	}
	return SessionlessPacket(PayloadRAKP4, rsp)
}

// SetSuites replaces the cipher suites the BMC advertises and accepts from now on (a firmware setting changed between
// two session establishments).
func (b *BMC) SetSuites(s []Suite) { b.cfg.Suites = s }
